#!/bin/bash
# usage: scratch_check.sh <patch.diff|none> <tier> <PROP[:only-stage,...]>...
# Runs checks against a SCRATCH copy of /repo (HEAD + patch) with a scratch copy of /verif, so that /repo
# itself is never touched (several can run in parallel). Everything is removed afterwards.
set -u
patch="$1"; tier="$2"; shift 2
sc=/tmp/sc$$
mkdir -p $sc
trap 'git -C /repo worktree remove --force '$sc'/repo 2>/dev/null; rm -rf '$sc'; git -C /repo worktree prune' EXIT
git -C /repo worktree add -q --detach $sc/repo HEAD || exit 2
if [ "$patch" != "none" ]; then git -C $sc/repo apply "$patch" || { echo "patch does not apply"; exit 2; }; fi
rsync -a --exclude target --exclude .git --exclude evidence --exclude replays --exclude logs --exclude seeded /verif/ $sc/verif/
sed -i "s#path = \"/repo\"#path = \"$sc/repo\"#" $sc/verif/harness/Cargo.toml
export RSMON_REPO=$sc/repo
for spec in "$@"; do
  p=${spec%%:*}; only=""
  if [[ "$spec" == *:* ]]; then only="--only-stage ${spec#*:}"; fi
  out=$(cd $sc/verif && python3 check.py "$p" --tier "$tier" $only 2>$sc/err.$p)
  rc=$?
  nv=$(echo "$out" | grep -c '^VIOLATION')
  echo "== $p exit=$rc violations=$nv $(echo "$out" | grep -E '^(HELD|BROKEN)' | head -1 | cut -c1-170)"
  echo "$out" | grep -E '^INCONCLUSIVE' | head -4 | cut -c1-300
  if [ "$nv" -gt 0 ]; then
    python3 - "$sc/verif/evidence/$p.json" <<'PY'
import json,sys
e=json.load(open(sys.argv[1]))
for s in e['coverage']['violation_signatures'][:10]: print('     sig:',s)
PY
  fi
done
