#!/usr/bin/env python3
"""Automated mutation campaign: measures what the quick checks catch among
syntactic mutants of /repo's library code that the repository's own test suite
does NOT catch.

  mutation_campaign.py --workers 4 --count 160 --seed 1 --out /verif/seeded/campaign-1.json

For every mutant (one-token / one-line change in non-test library code):
  1. cargo build in a scratch worktree            -> "does not compile" (dropped)
  2. cargo test --lib --test integration_test      -> "killed by existing tests" (dropped)
  3. every quick check (scratch copy of /verif)    -> which properties report a VIOLATION
Survivors of 3 are listed for manual triage (equivalent mutant or gap).
Nothing touches /repo or /verif themselves; scratch directories are removed.
"""
import argparse
import json
import os
import random
import re
import shutil
import subprocess
import sys
import threading
import time

REPO = "/repo"
VERIF = "/verif"
FILES = [
    "src/lib.rs", "src/rate.rs", "src/reed_solomon.rs", "src/encoder_result.rs", "src/decoder_result.rs",
    "src/rate/rate_default.rs", "src/rate/rate_high.rs", "src/rate/rate_low.rs",
    "src/rate/encoder_work.rs", "src/rate/decoder_work.rs",
    "src/engine/shards.rs", "src/engine/utils.rs", "src/engine/fwht.rs", "src/engine/tables.rs",
    "src/engine/engine_default.rs", "src/engine/engine_naive.rs", "src/engine/engine_nosimd.rs",
    "src/engine/engine_ssse3.rs", "src/engine/engine_avx2.rs", "src/engine/engine_neon.rs",
]
PROPS = ["C%02d" % i for i in range(1, 18)]

OPS = [
    (r"(?<![<>=!-])<(?![<=])", "<="), (r"<=", "<"), (r"(?<![<>=!-])>(?![>=])", ">="), (r">=", ">"),
    (r"==", "!="), (r"!=", "=="), (r"&&", "||"), (r"\|\|", "&&"),
    (r"\+ 1\b", "+ 2"), (r"\+ 1\b", ""), (r"- 1\b", ""), (r"- 1\b", "- 2"),
    (r"(?<![+\w])\+(?![+=])", "-"), (r"(?<![-\w>])-(?![-=>])", "+"),
    (r"\b32\b", "31"), (r"\b64\b", "63"), (r"\b2\b", "3"), (r"\b0\b", "1"), (r"\b1\b", "0"),
    (r"<<", ">>"), (r"\^", "|"), (r"\.min\(", ".max("), (r"\.max\(", ".min("),
    (r"next_power_of_two\(\)", "next_power_of_two() / 2"),
    (r"\btrue\b", "false"), (r"\bfalse\b", "true"),
    (r"\boriginal_count\b", "recovery_count"), (r"\brecovery_count\b", "original_count"),
    (r"\bchunk_size\b", "chunk_size / 2"), (r"\bdist\b", "dist4"), (r"\btruncated_size\b", "size"),
    (r"\.\.=", ".."), (r"(?<!\.)\.\.(?![.=])", "..="), (r"\bpos\b", "0"), (r"\bskew_delta\b", "0"),
    (r"% 2\b", "% 4"), (r"/ 64\b", "/ 32"), (r"% 64\b", "% 32"), (r"\* 2\b", "* 4"), (r"GF_MODULUS", "GF_MODULUS - 1"),
]


def code_lines(path):
    """(line number, text) of mutable lines: before #[cfg(test)], not comments / attributes / hooks."""
    out = []
    with open(path) as f:
        lines = f.read().split("\n")
    skip_next = False
    for i, l in enumerate(lines):
        t = l.strip()
        if t.startswith("#[cfg(test)]"):
            # the test module ends the library code; `#[cfg(test)] #[macro_use] mod test_util;`
            # near the top of lib.rs does not
            nxt = " ".join(x.strip() for x in lines[i + 1:i + 3])
            if "mod tests" in nxt:
                break
            continue
        if skip_next:
            # statement guarded by the hooks feature (may span lines until ';')
            if t.endswith(";") or t.endswith("}"):
                skip_next = False
            continue
        if 'cfg(feature = "verif-hooks")' in t or "cfg(all(" in t and "verif-hooks" in l:
            skip_next = True
            continue
        if not t or t.startswith("//") or t.startswith("#[") or t.startswith("#!") or t.startswith("use ") \
                or t.startswith("pub use ") or t.startswith("mod ") or t.startswith("pub mod ") \
                or "verif_hooks" in t or t.startswith("macro_rules") or t.startswith("debug_assert"):
            continue
        out.append((i, l))
    return lines, out


def gen_mutants(root, count, seed):
    rng = random.Random(seed)
    pool = []
    for rel in FILES:
        lines, cl = code_lines(os.path.join(root, rel))
        for (i, l) in cl:
            code = l.split("//")[0]
            for pat, rep in OPS:
                for m in re.finditer(pat, code):
                    # skip generics / lifetimes / type positions for < and >
                    if pat.startswith(r"(?<![<>=!-])<") or pat.startswith(r"(?<![<>=!-])>"):
                        if re.search(r"(fn |impl|struct |type |: |-> |::<|Vec<|Option<|Result<|Box<|&'|<E|<T|<'a)", code):
                            continue
                    new = code[:m.start()] + rep + code[m.end():] + l[len(code):]
                    pool.append({"file": rel, "line": i + 1, "old": l, "new": new, "kind": f"{pat} -> {rep}"})
            # statement deletion: a lone call statement
            t = code.strip()
            if re.match(r"^(self\.|work\.|engine::|engine\.|utils::|dst|last_chunk|erasures)[\w\.\[\]:]*\(.*\);$", t):
                pool.append({"file": rel, "line": i + 1, "old": l, "new": re.sub(r"\S.*", "{}", l, count=1), "kind": "delete statement"})
    rng.shuffle(pool)
    # spread over files: at most count/6 per file
    per = {}
    chosen = []
    for m in pool:
        if per.get(m["file"], 0) >= max(4, count // 6):
            continue
        per[m["file"]] = per.get(m["file"], 0) + 1
        chosen.append(m)
        if len(chosen) >= count:
            break
    return chosen


def sh(cmd, cwd, env=None, timeout=3600):
    e = dict(os.environ)
    e["CARGO_NET_OFFLINE"] = "true"
    if env:
        e.update(env)
    # own process group, so that a timeout also kills grandchildren (a test
    # binary spinning in a mutated loop would otherwise burn a core forever)
    p = subprocess.Popen(cmd, cwd=cwd, env=e, stdout=subprocess.PIPE, stderr=subprocess.STDOUT, text=True,
                         start_new_session=True)
    try:
        out, _ = p.communicate(timeout=timeout)
        return p.returncode, out
    except subprocess.TimeoutExpired:
        import signal
        try:
            os.killpg(p.pid, signal.SIGKILL)
        except ProcessLookupError:
            pass
        p.communicate()
        return 124, "timeout"


class Worker(threading.Thread):
    def __init__(self, wid, queue, results, lock, props):
        super().__init__()
        self.wid, self.queue, self.results, self.lock, self.props = wid, queue, results, lock, props
        self.sc = f"/tmp/mc{os.getpid()}_{wid}"

    def setup(self):
        os.makedirs(self.sc, exist_ok=True)
        with self.lock:  # concurrent `git worktree add` calls race on the repository lock
            rc, out = sh(["git", "-C", REPO, "worktree", "add", "-q", "--detach", f"{self.sc}/repo", "HEAD"], "/")
            assert rc == 0, out
        sh(["rsync", "-a", "--exclude", "target", "--exclude", ".git", "--exclude", "evidence", "--exclude", "replays",
            "--exclude", "logs", "--exclude", "seeded", f"{VERIF}/", f"{self.sc}/verif/"], "/")
        ct = f"{self.sc}/verif/harness/Cargo.toml"
        s = open(ct).read().replace('path = "/repo"', f'path = "{self.sc}/repo"')
        open(ct, "w").write(s)
        # warm builds
        sh(["cargo", "test", "--offline", "--lib", "--test", "integration_test", "--no-run"], f"{self.sc}/repo")
        sh(["python3", "check.py", "--setup"], f"{self.sc}/verif", {"RSMON_REPO": f"{self.sc}/repo"})

    def teardown(self):
        sh(["git", "-C", REPO, "worktree", "remove", "--force", f"{self.sc}/repo"], "/")
        shutil.rmtree(self.sc, ignore_errors=True)
        sh(["git", "-C", REPO, "worktree", "prune"], "/")

    def run(self):
        self.setup()
        try:
            while True:
                with self.lock:
                    if not self.queue:
                        break
                    m = self.queue.pop()
                r = self.one(m)
                with self.lock:
                    self.results.append(r)
                    print(f"[w{self.wid}] {r['status']:<28} {m['file']}:{m['line']} {m['kind']}  caught_by={r.get('caught_by')}", flush=True)
        finally:
            self.teardown()

    def one(self, m):
        path = f"{self.sc}/repo/{m['file']}"
        src = open(path).read()
        lines = src.split("\n")
        assert lines[m["line"] - 1] == m["old"], "source drifted"
        lines[m["line"] - 1] = m["new"]
        open(path, "w").write("\n".join(lines))
        r = dict(m)
        try:
            rc, out = sh(["cargo", "build", "--offline", "--features", "verif-hooks"], f"{self.sc}/repo")
            if rc != 0:
                r["status"] = "does-not-compile"
                return r
            rc, out = sh(["cargo", "test", "--offline", "--lib", "--test", "integration_test"], f"{self.sc}/repo", timeout=900)
            if rc != 0:
                r["status"] = "killed-by-existing-tests"
                return r
            caught = {}
            incon = []
            for p in self.props:
                rc, out = sh(["python3", "check.py", p], f"{self.sc}/verif", {"RSMON_REPO": f"{self.sc}/repo"}, timeout=1800)
                if "VIOLATION" in out:
                    try:
                        ev = json.load(open(f"{self.sc}/verif/evidence/{p}.json"))
                        caught[p] = ev["coverage"]["violation_signatures"][:4]
                    except Exception:
                        caught[p] = ["?"]
                elif rc != 0:
                    incon.append(p)
            r["caught_by"] = sorted(caught)
            r["signatures"] = caught
            r["check_errors"] = incon
            r["status"] = "caught-by-checks" if caught else "SURVIVED-ALL-CHECKS"
            return r
        finally:
            open(path, "w").write(src)


def main():
    ap = argparse.ArgumentParser()
    ap.add_argument("--workers", type=int, default=4)
    ap.add_argument("--count", type=int, default=120)
    ap.add_argument("--seed", type=int, default=1)
    ap.add_argument("--out", default="/verif/seeded/campaign.json")
    ap.add_argument("--props", default=",".join(PROPS))
    ap.add_argument("--files", default="", help="comma separated subset of FILES")
    a = ap.parse_args()
    if a.files:
        global FILES
        FILES = a.files.split(",")
    muts = gen_mutants(REPO, a.count, a.seed)
    print(f"{len(muts)} mutants over {len(set(m['file'] for m in muts))} files", flush=True)
    queue = list(reversed(muts))
    results, lock = [], threading.Lock()
    t0 = time.time()
    ws = [Worker(i, queue, results, lock, a.props.split(",")) for i in range(a.workers)]
    for w in ws:
        w.start()
    for w in ws:
        w.join()
    summary = {}
    for r in results:
        summary[r["status"]] = summary.get(r["status"], 0) + 1
    json.dump({"seed": a.seed, "count": len(muts), "wall_s": round(time.time() - t0), "summary": summary,
               "results": sorted(results, key=lambda r: (r["status"], r["file"], r["line"]))}, open(a.out, "w"), indent=1)
    print(summary)


if __name__ == "__main__":
    sys.exit(main())
