//! Uniform, object-safe access to every codec type and engine of the crate
//! under test: {High, Low, Default}Rate{Encoder,Decoder}<E> for every engine E,
//! ReedSolomonEncoder/Decoder, and the one-shot functions.

use std::marker::PhantomData;

use reed_solomon_simd::engine::{DefaultEngine, Engine, Naive, NoSimd};
#[cfg(target_arch = "x86_64")]
use reed_solomon_simd::engine::{Avx2, Ssse3};
use reed_solomon_simd::rate::{
    DecoderWork, DefaultRateDecoder, DefaultRateEncoder, EncoderWork, HighRateDecoder,
    HighRateEncoder, LowRateDecoder, LowRateEncoder, RateDecoder, RateEncoder,
};
use reed_solomon_simd::{Error, ReedSolomonDecoder, ReedSolomonEncoder};

#[cfg(feature = "neon-port")]
pub use crate::neon_port::Neon as NeonPort;

// ======================================================================
// Kinds

#[derive(Clone, Copy, PartialEq, Eq, Hash, Debug, PartialOrd, Ord)]
pub enum EngineKind {
    Naive,
    NoSimd,
    Ssse3,
    Avx2,
    Default,
    NeonPort,
}

impl EngineKind {
    pub fn name(self) -> &'static str {
        match self {
            EngineKind::Naive => "naive",
            EngineKind::NoSimd => "nosimd",
            EngineKind::Ssse3 => "ssse3",
            EngineKind::Avx2 => "avx2",
            EngineKind::Default => "default",
            EngineKind::NeonPort => "neonport",
        }
    }
    pub fn available(self) -> bool {
        match self {
            EngineKind::Naive | EngineKind::NoSimd | EngineKind::Default => true,
            #[cfg(target_arch = "x86_64")]
            EngineKind::Ssse3 => std::arch::is_x86_feature_detected!("ssse3"),
            #[cfg(target_arch = "x86_64")]
            EngineKind::Avx2 => std::arch::is_x86_feature_detected!("avx2"),
            #[cfg(not(target_arch = "x86_64"))]
            EngineKind::Ssse3 | EngineKind::Avx2 => false,
            EngineKind::NeonPort => cfg!(feature = "neon-port"),
        }
    }
    pub fn all() -> Vec<EngineKind> {
        [
            EngineKind::Naive,
            EngineKind::NoSimd,
            EngineKind::Ssse3,
            EngineKind::Avx2,
            EngineKind::Default,
            EngineKind::NeonPort,
        ]
        .into_iter()
        .filter(|e| e.available())
        .collect()
    }
    /// engines other than the (slow) reference
    pub fn fast() -> Vec<EngineKind> {
        Self::all()
            .into_iter()
            .filter(|e| *e != EngineKind::Naive && *e != EngineKind::NeonPort)
            .collect()
    }
}

#[derive(Clone, Copy, PartialEq, Eq, Hash, Debug, PartialOrd, Ord)]
pub enum RateKind {
    High,
    Low,
    Default,
}

impl RateKind {
    pub fn name(self) -> &'static str {
        match self {
            RateKind::High => "high",
            RateKind::Low => "low",
            RateKind::Default => "default",
        }
    }
    pub const ALL: [RateKind; 3] = [RateKind::High, RateKind::Low, RateKind::Default];
}

/// Which API layer drives the codec.
#[derive(Clone, Copy, PartialEq, Eq, Hash, Debug)]
pub enum Api {
    /// rate::{High,Low,Default}Rate{En,De}coder<E>
    Rate(RateKind, EngineKind),
    /// ReedSolomonEncoder / ReedSolomonDecoder
    Wrapper,
}

impl Api {
    pub fn name(self) -> String {
        match self {
            Api::Rate(r, e) => format!("{}/{}", r.name(), e.name()),
            Api::Wrapper => "wrapper".to_string(),
        }
    }
}

// ======================================================================
// Engine construction

pub trait Mk: Engine + Sized + Send + 'static {
    fn mk() -> Self;
}
impl Mk for Naive {
    fn mk() -> Self {
        Naive::new()
    }
}
impl Mk for NoSimd {
    fn mk() -> Self {
        NoSimd::new()
    }
}
#[cfg(target_arch = "x86_64")]
impl Mk for Ssse3 {
    fn mk() -> Self {
        Ssse3::new()
    }
}
#[cfg(target_arch = "x86_64")]
impl Mk for Avx2 {
    fn mk() -> Self {
        Avx2::new()
    }
}
impl Mk for DefaultEngine {
    fn mk() -> Self {
        DefaultEngine::new()
    }
}
#[cfg(feature = "neon-port")]
impl Mk for NeonPort {
    fn mk() -> Self {
        NeonPort::new()
    }
}

/// Engine for direct primitive calls (fft / ifft / mul are object safe).
pub fn dyn_engine(kind: EngineKind) -> Box<dyn Engine> {
    match kind {
        EngineKind::Naive => Box::new(Naive::new()),
        EngineKind::NoSimd => Box::new(NoSimd::new()),
        #[cfg(target_arch = "x86_64")]
        EngineKind::Ssse3 => Box::new(Ssse3::new()),
        #[cfg(target_arch = "x86_64")]
        EngineKind::Avx2 => Box::new(Avx2::new()),
        EngineKind::Default => Box::new(DefaultEngine::new()),
        #[cfg(feature = "neon-port")]
        EngineKind::NeonPort => Box::new(NeonPort::new()),
        #[allow(unreachable_patterns)]
        _ => panic!("engine {kind:?} not available in this build"),
    }
}

pub fn eval_poly(kind: EngineKind, erasures: &mut [u16; 65536], truncated_size: usize) {
    match kind {
        EngineKind::Naive => Naive::eval_poly(erasures, truncated_size),
        EngineKind::NoSimd => NoSimd::eval_poly(erasures, truncated_size),
        #[cfg(target_arch = "x86_64")]
        EngineKind::Ssse3 => Ssse3::eval_poly(erasures, truncated_size),
        #[cfg(target_arch = "x86_64")]
        EngineKind::Avx2 => Avx2::eval_poly(erasures, truncated_size),
        EngineKind::Default => DefaultEngine::eval_poly(erasures, truncated_size),
        #[cfg(feature = "neon-port")]
        EngineKind::NeonPort => NeonPort::eval_poly(erasures, truncated_size),
        #[allow(unreachable_patterns)]
        _ => panic!("engine {kind:?} not available in this build"),
    }
}

// ======================================================================
// Observations of results (everything a caller can see)

#[derive(Clone, PartialEq, Eq, Debug, Default)]
pub struct EncObs {
    /// what recovery_iter() yielded, in order
    pub iter: Vec<Vec<u8>>,
    /// number of None answers on 3 further next() calls after the first None
    pub nones_after_end: usize,
    /// recovery(i) for each probe index
    pub probes: Vec<Option<Vec<u8>>>,
    /// address of recovery(0) (in-place check); not part of equality tests
    pub addr0: usize,
    /// disagreements between the Iterator methods of recovery_iter() (nth,
    /// skip, step_by, last, count, size_hint) and repeated next()
    pub protocol: Vec<String>,
}

#[derive(Clone, PartialEq, Eq, Debug, Default)]
pub struct DecObs {
    /// what restored_original_iter() yielded, in order
    pub iter: Vec<(usize, Vec<u8>)>,
    pub nones_after_end: usize,
    /// restored_original(i) for each probe index
    pub probes: Vec<Option<Vec<u8>>>,
    pub addr_first: usize,
    /// as in `EncObs`
    pub protocol: Vec<String>,
}

// ======================================================================
// Object-safe encoder / decoder

/// message of the panic raised by `encode_then_unwind` / `decode_then_unwind`
pub const USER_PANIC: &str = "harness: user code panics while it holds the result";

pub trait DynEnc {
    fn add(&mut self, shard: &[u8]) -> Result<(), Error>;
    /// the shard as any `AsRef<[u8]>` value (see `Shifty`)
    fn add_any(&mut self, shard: &dyn AsRef<[u8]>) -> Result<(), Error>;
    /// encode, then panic (`USER_PANIC`) while the result is alive: the result
    /// is dropped by unwinding. Returns only if encode fails.
    fn encode_then_unwind(&mut self) -> Result<(), Error>;
    fn encode_obs(&mut self, probes: &[usize]) -> Result<EncObs, Error>;
    /// encode and read every result through the accessors without copying
    /// (no heap allocation by the harness): (digest, address of recovery(0))
    fn encode_touch(&mut self) -> Result<(u64, usize), Error>;
    fn reset(&mut self, k: usize, r: usize, size: usize) -> Result<(), Error>;
    fn into_work(self: Box<Self>) -> Option<EncoderWork>;
}

pub trait DynDec {
    fn add_original(&mut self, index: usize, shard: &[u8]) -> Result<(), Error>;
    fn add_recovery(&mut self, index: usize, shard: &[u8]) -> Result<(), Error>;
    fn add_original_any(&mut self, index: usize, shard: &dyn AsRef<[u8]>) -> Result<(), Error>;
    fn add_recovery_any(&mut self, index: usize, shard: &dyn AsRef<[u8]>) -> Result<(), Error>;
    /// like `DynEnc::encode_then_unwind`
    fn decode_then_unwind(&mut self) -> Result<(), Error>;
    fn decode_obs(&mut self, probes: &[usize]) -> Result<DecObs, Error>;
    /// like `encode_touch`: (digest, address of the first restored shard)
    fn decode_touch(&mut self) -> Result<(u64, usize), Error>;
    fn reset(&mut self, k: usize, r: usize, size: usize) -> Result<(), Error>;
    fn into_work(self: Box<Self>) -> Option<DecoderWork>;
}

/// The Iterator contract: every provided method must agree with what
/// repeated `next()` yields. `make` creates a fresh iterator each time.
fn iterator_protocol<I, F>(make: F) -> Vec<String>
where
    I: Iterator,
    I::Item: PartialEq + Clone,
    F: Fn() -> I,
{
    let all: Vec<I::Item> = make().collect();
    let n = all.len();
    let mut bad = Vec::new();
    if make().count() != n {
        bad.push("count() disagrees with next()".to_string());
    }
    let (lo, hi) = make().size_hint();
    if lo > n || hi.is_some_and(|h| h < n) {
        bad.push(format!("size_hint ({lo}, {hi:?}) excludes the real length {n}"));
    }
    for j in [0, 1, n.saturating_sub(1), n, n + 5, usize::MAX / 2, usize::MAX] {
        if make().nth(j) != all.get(j).cloned() {
            bad.push(format!("nth({j}) on a fresh iterator disagrees with next()"));
        }
        // the same after the iterator has been advanced once
        let mut it = make();
        if it.next().is_some() && it.nth(j) != all.get(j.saturating_add(1)).cloned() {
            bad.push(format!("nth({j}) after one next() disagrees with next()"));
        }
    }
    if make().last() != all.last().cloned() {
        bad.push("last() disagrees with next()".to_string());
    }
    let stepped: Vec<I::Item> = make().skip(1).step_by(2).collect();
    let want: Vec<I::Item> = all.iter().skip(1).step_by(2).cloned().collect();
    if stepped != want {
        bad.push("skip(1).step_by(2) disagrees with next()".to_string());
    }
    bad
}

fn observe_enc(res: &reed_solomon_simd::EncoderResult, probes: &[usize]) -> EncObs {
    let mut it = res.recovery_iter();
    let mut iter = Vec::new();
    for s in it.by_ref() {
        iter.push(s.to_vec());
    }
    let mut nones = 0;
    for _ in 0..3 {
        if it.next().is_none() {
            nones += 1;
        }
    }
    EncObs {
        iter,
        nones_after_end: nones,
        probes: probes
            .iter()
            .map(|i| res.recovery(*i).map(<[u8]>::to_vec))
            .collect(),
        addr0: res.recovery(0).map_or(0, |s| s.as_ptr() as usize),
        protocol: iterator_protocol(|| res.recovery_iter()),
    }
}

fn touch_enc(res: &reed_solomon_simd::EncoderResult) -> (u64, usize) {
    let mut h = 0u64;
    for s in res.recovery_iter() {
        h = crate::util::hash_bytes(h, s);
    }
    (h, res.recovery(0).map_or(0, |s| s.as_ptr() as usize))
}

fn touch_dec(res: &reed_solomon_simd::DecoderResult) -> (u64, usize) {
    let mut h = 0u64;
    let mut addr = 0usize;
    for (i, s) in res.restored_original_iter() {
        if addr == 0 {
            // normalised to original index 0, so that rounds with different
            // received sets are comparable
            addr = (s.as_ptr() as usize).wrapping_sub(i * s.len().div_ceil(64) * 64);
        }
        h = crate::util::hash_bytes(h ^ i as u64, s);
    }
    (h, addr)
}

fn observe_dec(res: &reed_solomon_simd::DecoderResult, probes: &[usize]) -> DecObs {
    let mut it = res.restored_original_iter();
    let mut iter = Vec::new();
    for (i, s) in it.by_ref() {
        iter.push((i, s.to_vec()));
    }
    let mut nones = 0;
    for _ in 0..3 {
        if it.next().is_none() {
            nones += 1;
        }
    }
    let addr_first = res
        .restored_original_iter()
        .next()
        .map_or(0, |(_, s)| s.as_ptr() as usize);
    DecObs {
        iter,
        nones_after_end: nones,
        probes: probes
            .iter()
            .map(|i| res.restored_original(*i).map(<[u8]>::to_vec))
            .collect(),
        addr_first,
        protocol: iterator_protocol(|| res.restored_original_iter()),
    }
}

struct RE<T, E>(T, PhantomData<E>);
struct RD<T, E>(T, PhantomData<E>);

impl<E: Engine + 'static, T: RateEncoder<E>> DynEnc for RE<T, E> {
    fn add(&mut self, shard: &[u8]) -> Result<(), Error> {
        self.0.add_original_shard(shard)
    }
    fn add_any(&mut self, shard: &dyn AsRef<[u8]>) -> Result<(), Error> {
        self.0.add_original_shard(shard)
    }
    fn encode_then_unwind(&mut self) -> Result<(), Error> {
        let res = self.0.encode()?;
        let _first = res.recovery(0).map(|s| s.len());
        panic!("{USER_PANIC}");
    }
    fn encode_obs(&mut self, probes: &[usize]) -> Result<EncObs, Error> {
        let res = self.0.encode()?;
        Ok(observe_enc(&res, probes))
    }
    fn encode_touch(&mut self) -> Result<(u64, usize), Error> {
        let res = self.0.encode()?;
        Ok(touch_enc(&res))
    }
    fn reset(&mut self, k: usize, r: usize, size: usize) -> Result<(), Error> {
        self.0.reset(k, r, size)
    }
    fn into_work(self: Box<Self>) -> Option<EncoderWork> {
        Some(self.0.into_parts().1)
    }
}

impl<E: Engine + 'static, T: RateDecoder<E>> DynDec for RD<T, E> {
    fn add_original(&mut self, index: usize, shard: &[u8]) -> Result<(), Error> {
        self.0.add_original_shard(index, shard)
    }
    fn add_recovery(&mut self, index: usize, shard: &[u8]) -> Result<(), Error> {
        self.0.add_recovery_shard(index, shard)
    }
    fn add_original_any(&mut self, index: usize, shard: &dyn AsRef<[u8]>) -> Result<(), Error> {
        self.0.add_original_shard(index, shard)
    }
    fn add_recovery_any(&mut self, index: usize, shard: &dyn AsRef<[u8]>) -> Result<(), Error> {
        self.0.add_recovery_shard(index, shard)
    }
    fn decode_then_unwind(&mut self) -> Result<(), Error> {
        let res = self.0.decode()?;
        let _n = res.restored_original_iter().count();
        panic!("{USER_PANIC}");
    }
    fn decode_obs(&mut self, probes: &[usize]) -> Result<DecObs, Error> {
        let res = self.0.decode()?;
        Ok(observe_dec(&res, probes))
    }
    fn decode_touch(&mut self) -> Result<(u64, usize), Error> {
        let res = self.0.decode()?;
        Ok(touch_dec(&res))
    }
    fn reset(&mut self, k: usize, r: usize, size: usize) -> Result<(), Error> {
        self.0.reset(k, r, size)
    }
    fn into_work(self: Box<Self>) -> Option<DecoderWork> {
        Some(self.0.into_parts().1)
    }
}

struct WE(ReedSolomonEncoder);
struct WD(ReedSolomonDecoder);

impl DynEnc for WE {
    fn add(&mut self, shard: &[u8]) -> Result<(), Error> {
        self.0.add_original_shard(shard)
    }
    fn add_any(&mut self, shard: &dyn AsRef<[u8]>) -> Result<(), Error> {
        self.0.add_original_shard(shard)
    }
    fn encode_then_unwind(&mut self) -> Result<(), Error> {
        let res = self.0.encode()?;
        let _first = res.recovery(0).map(|s| s.len());
        panic!("{USER_PANIC}");
    }
    fn encode_obs(&mut self, probes: &[usize]) -> Result<EncObs, Error> {
        let res = self.0.encode()?;
        Ok(observe_enc(&res, probes))
    }
    fn encode_touch(&mut self) -> Result<(u64, usize), Error> {
        let res = self.0.encode()?;
        Ok(touch_enc(&res))
    }
    fn reset(&mut self, k: usize, r: usize, size: usize) -> Result<(), Error> {
        self.0.reset(k, r, size)
    }
    fn into_work(self: Box<Self>) -> Option<EncoderWork> {
        None
    }
}

impl DynDec for WD {
    fn add_original(&mut self, index: usize, shard: &[u8]) -> Result<(), Error> {
        self.0.add_original_shard(index, shard)
    }
    fn add_recovery(&mut self, index: usize, shard: &[u8]) -> Result<(), Error> {
        self.0.add_recovery_shard(index, shard)
    }
    fn add_original_any(&mut self, index: usize, shard: &dyn AsRef<[u8]>) -> Result<(), Error> {
        self.0.add_original_shard(index, shard)
    }
    fn add_recovery_any(&mut self, index: usize, shard: &dyn AsRef<[u8]>) -> Result<(), Error> {
        self.0.add_recovery_shard(index, shard)
    }
    fn decode_then_unwind(&mut self) -> Result<(), Error> {
        let res = self.0.decode()?;
        let _n = res.restored_original_iter().count();
        panic!("{USER_PANIC}");
    }
    fn decode_obs(&mut self, probes: &[usize]) -> Result<DecObs, Error> {
        let res = self.0.decode()?;
        Ok(observe_dec(&res, probes))
    }
    fn decode_touch(&mut self) -> Result<(u64, usize), Error> {
        let res = self.0.decode()?;
        Ok(touch_dec(&res))
    }
    fn reset(&mut self, k: usize, r: usize, size: usize) -> Result<(), Error> {
        self.0.reset(k, r, size)
    }
    fn into_work(self: Box<Self>) -> Option<DecoderWork> {
        None
    }
}

fn enc_e<E: Mk>(
    rate: RateKind,
    k: usize,
    r: usize,
    size: usize,
    work: Option<EncoderWork>,
) -> Result<Box<dyn DynEnc + Send>, Error> {
    Ok(match rate {
        RateKind::High => Box::new(RE(
            HighRateEncoder::<E>::new(k, r, size, E::mk(), work)?,
            PhantomData,
        )),
        RateKind::Low => Box::new(RE(
            LowRateEncoder::<E>::new(k, r, size, E::mk(), work)?,
            PhantomData,
        )),
        RateKind::Default => Box::new(RE(
            DefaultRateEncoder::<E>::new(k, r, size, E::mk(), work)?,
            PhantomData,
        )),
    })
}

fn dec_e<E: Mk>(
    rate: RateKind,
    k: usize,
    r: usize,
    size: usize,
    work: Option<DecoderWork>,
) -> Result<Box<dyn DynDec + Send>, Error> {
    Ok(match rate {
        RateKind::High => Box::new(RD(
            HighRateDecoder::<E>::new(k, r, size, E::mk(), work)?,
            PhantomData,
        )),
        RateKind::Low => Box::new(RD(
            LowRateDecoder::<E>::new(k, r, size, E::mk(), work)?,
            PhantomData,
        )),
        RateKind::Default => Box::new(RD(
            DefaultRateDecoder::<E>::new(k, r, size, E::mk(), work)?,
            PhantomData,
        )),
    })
}

pub fn make_enc(
    api: Api,
    k: usize,
    r: usize,
    size: usize,
    work: Option<EncoderWork>,
) -> Result<Box<dyn DynEnc + Send>, Error> {
    match api {
        Api::Wrapper => Ok(Box::new(WE(ReedSolomonEncoder::new(k, r, size)?))),
        Api::Rate(rate, eng) => match eng {
            EngineKind::Naive => enc_e::<Naive>(rate, k, r, size, work),
            EngineKind::NoSimd => enc_e::<NoSimd>(rate, k, r, size, work),
            #[cfg(target_arch = "x86_64")]
            EngineKind::Ssse3 => enc_e::<Ssse3>(rate, k, r, size, work),
            #[cfg(target_arch = "x86_64")]
            EngineKind::Avx2 => enc_e::<Avx2>(rate, k, r, size, work),
            EngineKind::Default => enc_e::<DefaultEngine>(rate, k, r, size, work),
            #[cfg(feature = "neon-port")]
            EngineKind::NeonPort => enc_e::<NeonPort>(rate, k, r, size, work),
            #[allow(unreachable_patterns)]
            _ => panic!("engine {eng:?} not available in this build"),
        },
    }
}

pub fn make_dec(
    api: Api,
    k: usize,
    r: usize,
    size: usize,
    work: Option<DecoderWork>,
) -> Result<Box<dyn DynDec + Send>, Error> {
    match api {
        Api::Wrapper => Ok(Box::new(WD(ReedSolomonDecoder::new(k, r, size)?))),
        Api::Rate(rate, eng) => match eng {
            EngineKind::Naive => dec_e::<Naive>(rate, k, r, size, work),
            EngineKind::NoSimd => dec_e::<NoSimd>(rate, k, r, size, work),
            #[cfg(target_arch = "x86_64")]
            EngineKind::Ssse3 => dec_e::<Ssse3>(rate, k, r, size, work),
            #[cfg(target_arch = "x86_64")]
            EngineKind::Avx2 => dec_e::<Avx2>(rate, k, r, size, work),
            EngineKind::Default => dec_e::<DefaultEngine>(rate, k, r, size, work),
            #[cfg(feature = "neon-port")]
            EngineKind::NeonPort => dec_e::<NeonPort>(rate, k, r, size, work),
            #[allow(unreachable_patterns)]
            _ => panic!("engine {eng:?} not available in this build"),
        },
    }
}

/// supports() of the given API layer / rate (engine-independent by contract;
/// instantiated with the engine given).
pub fn supports(api: Api, k: usize, r: usize) -> bool {
    use reed_solomon_simd::rate::{DefaultRate, HighRate, LowRate, Rate};
    match api {
        Api::Wrapper => ReedSolomonEncoder::supports(k, r),
        Api::Rate(RateKind::High, _) => HighRate::<NoSimd>::supports(k, r),
        Api::Rate(RateKind::Low, _) => LowRate::<NoSimd>::supports(k, r),
        Api::Rate(RateKind::Default, _) => DefaultRate::<NoSimd>::supports(k, r),
    }
}

// ======================================================================
// Convenience round helpers

/// Fresh encoder, add all originals in order, encode, return recovery shards.
pub fn encode_fresh(
    api: Api,
    k: usize,
    r: usize,
    size: usize,
    originals: &[Vec<u8>],
) -> Result<Vec<Vec<u8>>, Error> {
    let mut enc = make_enc(api, k, r, size, None)?;
    for o in originals {
        enc.add(o)?;
    }
    Ok(enc.encode_obs(&[])?.iter)
}

/// One decoding round on an existing decoder: `adds` lists (is_recovery, index).
pub fn decode_round(
    dec: &mut dyn DynDec,
    adds: &[(bool, usize)],
    originals: &[Vec<u8>],
    recovery: &[Vec<u8>],
    probes: &[usize],
) -> Result<DecObs, Error> {
    decode_round_with(dec, adds, originals, recovery, probes, None)
}

/// A shard value whose `as_ref()` gives the shard on the first call and
/// something else (shorter, longer, other bytes) on later calls. Legal Rust;
/// the library is entitled to look once or several times, but whatever it
/// does must not let old contents of the working space through.
pub struct Shifty {
    views: Vec<Vec<u8>>,
    calls: std::cell::Cell<usize>,
}

impl Shifty {
    pub fn new(shard: &[u8], plan: &mut crate::util::Rng) -> Shifty {
        let n = shard.len();
        let later = match plan.below(5) {
            0 => shard[..n - 2.min(n)].to_vec(),
            1 => shard[..n / 2].to_vec(),
            2 => Vec::new(),
            3 => {
                let mut v = shard.to_vec();
                v.extend_from_slice(&[0xEE, 0xEE]);
                v
            }
            _ => vec![0xEE; n],
        };
        Shifty { views: vec![shard.to_vec(), later], calls: std::cell::Cell::new(0) }
    }
}

impl AsRef<[u8]> for Shifty {
    fn as_ref(&self) -> &[u8] {
        let i = self.calls.get();
        self.calls.set(i + 1);
        &self.views[i.min(self.views.len() - 1)]
    }
}

/// `decode_round`; with `shifty = Some(seed)` about a third of the shards are
/// passed as `Shifty` values (the same ones for the same seed).
pub fn decode_round_with(
    dec: &mut dyn DynDec,
    adds: &[(bool, usize)],
    originals: &[Vec<u8>],
    recovery: &[Vec<u8>],
    probes: &[usize],
    shifty: Option<u64>,
) -> Result<DecObs, Error> {
    let mut plan = shifty.map(crate::util::Rng::new);
    for (is_rec, i) in adds {
        let shard = if *is_rec { &recovery[*i] } else { &originals[*i] };
        let use_shifty = plan.as_mut().is_some_and(|p| p.chance(1, 3));
        match plan.as_mut() {
            Some(p) if use_shifty => {
                let s = Shifty::new(shard, p);
                if *is_rec {
                    dec.add_recovery_any(*i, &s)?;
                } else {
                    dec.add_original_any(*i, &s)?;
                }
            }
            _ => {
                if *is_rec {
                    dec.add_recovery(*i, shard)?;
                } else {
                    dec.add_original(*i, shard)?;
                }
            }
        }
    }
    dec.decode_obs(probes)
}

/// Adds the shards to an encoder, a third of them as `Shifty` values when a
/// plan seed is given.
pub fn add_all(enc: &mut dyn DynEnc, shards: &[Vec<u8>], shifty: Option<u64>) -> Result<(), Error> {
    let mut plan = shifty.map(crate::util::Rng::new);
    for o in shards {
        let use_shifty = plan.as_mut().is_some_and(|p| p.chance(1, 3));
        match plan.as_mut() {
            Some(p) if use_shifty => enc.add_any(&Shifty::new(o, p))?,
            _ => enc.add(o)?,
        }
    }
    Ok(())
}

/// the values an error carries
pub fn err_fields(e: &Error) -> Vec<usize> {
    match *e {
        Error::DifferentShardSize { shard_bytes, got } => vec![shard_bytes, got],
        Error::DuplicateOriginalShardIndex { index } => vec![index],
        Error::DuplicateRecoveryShardIndex { index } => vec![index],
        Error::InvalidOriginalShardIndex { original_count, index } => vec![original_count, index],
        Error::InvalidRecoveryShardIndex { recovery_count, index } => vec![recovery_count, index],
        Error::InvalidShardSize { shard_bytes } => vec![shard_bytes],
        Error::NotEnoughShards { original_count, original_received_count, recovery_received_count } => {
            vec![original_count, original_received_count, recovery_received_count]
        }
        Error::TooFewOriginalShards { original_count, original_received_count } => vec![original_count, original_received_count],
        Error::TooManyOriginalShards { original_count } => vec![original_count],
        Error::UnsupportedShardCount { original_count, recovery_count } => vec![original_count, recovery_count],
    }
}

/// Does the Display text of the error mention every value it carries (as
/// often as it carries it)? The wording is free.
pub fn display_mentions_fields(e: &Error) -> bool {
    let text = e.to_string();
    let mut numbers: Vec<usize> = text
        .split(|c: char| !c.is_ascii_digit())
        .filter(|t| !t.is_empty())
        .filter_map(|t| t.parse().ok())
        .collect();
    for f in err_fields(e) {
        match numbers.iter().position(|n| *n == f) {
            Some(i) => {
                numbers.swap_remove(i);
            }
            None => return false,
        }
    }
    true
}

pub fn err_name(e: &Error) -> &'static str {
    match e {
        Error::DifferentShardSize { .. } => "DifferentShardSize",
        Error::DuplicateOriginalShardIndex { .. } => "DuplicateOriginalShardIndex",
        Error::DuplicateRecoveryShardIndex { .. } => "DuplicateRecoveryShardIndex",
        Error::InvalidOriginalShardIndex { .. } => "InvalidOriginalShardIndex",
        Error::InvalidRecoveryShardIndex { .. } => "InvalidRecoveryShardIndex",
        Error::InvalidShardSize { .. } => "InvalidShardSize",
        Error::NotEnoughShards { .. } => "NotEnoughShards",
        Error::TooFewOriginalShards { .. } => "TooFewOriginalShards",
        Error::TooManyOriginalShards { .. } => "TooManyOriginalShards",
        Error::UnsupportedShardCount { .. } => "UnsupportedShardCount",
    }
}
