//! rsmon library: oracles, generators and one monitor per property
//! (see /verif/DESIGN.md). Binaries: rsmon (native monitors), rsmiri (lean
//! workloads for the Miri stages).

#![allow(clippy::too_many_arguments, clippy::needless_range_loop)]

pub mod alloc;
pub mod codec;
pub mod gen;
pub mod gf;
pub mod hooks;
pub mod neon_emu;
pub mod util;

#[cfg(feature = "neon-port")]
#[allow(unexpected_cfgs, dead_code, clippy::all)]
pub mod neon_port {
    include!(concat!(env!("OUT_DIR"), "/engine_neon_port.rs"));
}

pub mod mon_c01;
pub mod mon_c02;
pub mod mon_c03;
pub mod mon_c04;
pub mod mon_c05;
pub mod mon_c06;
pub mod mon_c07;
pub mod mon_c08;
pub mod mon_c09;
pub mod mon_c10;
pub mod mon_c11;
pub mod mon_c12;
pub mod mon_c13;
pub mod mon_c14;
pub mod mon_c15;
pub mod mon_c16;
pub mod mon_c17;

pub static SCALE: std::sync::OnceLock<f64> = std::sync::OnceLock::new();

/// number of cases for a stage: quick / thorough base counts times --scale
pub fn count(cfg: &util::RunCfg, quick: u64, thorough: u64) -> u64 {
    let base = if cfg.thorough { thorough } else { quick };
    let s = *SCALE.get().unwrap_or(&1.0);
    ((base as f64 * s).ceil() as u64).max(1)
}

pub static THOROUGH: std::sync::atomic::AtomicBool = std::sync::atomic::AtomicBool::new(false);

/// true in the thorough tier: monitors then also use longer histories,
/// call sequences and operation streams, not only more of them
pub fn thorough() -> bool {
    THOROUGH.load(std::sync::atomic::Ordering::Relaxed)
}
