//! Emulation of the seven AArch64 Neon intrinsics used by engine_neon.rs,
//! written from the Arm architecture definitions.
#![allow(non_camel_case_types, clippy::missing_safety_doc)]

#[derive(Clone, Copy)]
pub struct uint8x16_t(pub [u8; 16]);

/// LD1 {Vt.16B}, [Xn]: 16 consecutive bytes, no alignment requirement
pub unsafe fn vld1q_u8(ptr: *const u8) -> uint8x16_t {
    uint8x16_t(std::ptr::read_unaligned(ptr.cast::<[u8; 16]>()))
}

/// ST1 {Vt.16B}, [Xn]
pub unsafe fn vst1q_u8(ptr: *mut u8, a: uint8x16_t) {
    std::ptr::write_unaligned(ptr.cast::<[u8; 16]>(), a.0);
}

/// DUP Vd.16B, rn
pub unsafe fn vdupq_n_u8(value: u8) -> uint8x16_t {
    uint8x16_t([value; 16])
}

/// AND Vd.16B, Vn.16B, Vm.16B
pub unsafe fn vandq_u8(a: uint8x16_t, b: uint8x16_t) -> uint8x16_t {
    let mut r = [0u8; 16];
    for i in 0..16 {
        r[i] = a.0[i] & b.0[i];
    }
    uint8x16_t(r)
}

/// EOR Vd.16B, Vn.16B, Vm.16B
pub unsafe fn veorq_u8(a: uint8x16_t, b: uint8x16_t) -> uint8x16_t {
    let mut r = [0u8; 16];
    for i in 0..16 {
        r[i] = a.0[i] ^ b.0[i];
    }
    uint8x16_t(r)
}

/// USHR Vd.16B, Vn.16B, #n (1 <= n <= 8): logical shift right of every byte
pub unsafe fn vshrq_n_u8(a: uint8x16_t, n: i32) -> uint8x16_t {
    assert!((1..=8).contains(&n));
    let mut r = [0u8; 16];
    for i in 0..16 {
        r[i] = if n == 8 { 0 } else { a.0[i] >> n };
    }
    uint8x16_t(r)
}

/// TBL Vd.16B, {Vn.16B}, Vm.16B: table lookup, index >= 16 yields 0
pub unsafe fn vqtbl1q_u8(t: uint8x16_t, idx: uint8x16_t) -> uint8x16_t {
    let mut r = [0u8; 16];
    for i in 0..16 {
        let j = idx.0[i] as usize;
        r[i] = if j < 16 { t.0[j] } else { 0 };
    }
    uint8x16_t(r)
}
