//! C02 - recovery shards are the fixed scaled-Cauchy code.
//! Oracle: closed-form generator matrix over the harness's own GF(2^16)
//! (gf.rs); second oracle: the ancestor crate reed-solomon-16 0.1.0.

use std::sync::Mutex;

use crate::codec::{self, Api, EngineKind, RateKind};
use crate::gen::{self, Class};
use crate::gf::{self, CodeRate, Generator};
use crate::hooks::Poison;
use crate::util::{hex, jobj, jstr, run_cases, run_indexed, Agg, CaseOut, Rng, RunCfg};

pub fn run(cfg: &RunCfg, agg: &Mutex<Agg>) {
    run_cases(agg, cfg, "closed-form", crate::count(cfg, 2500, 60_000), |cs, out| {
        let mut rng = Rng::new(cs);
        let class = gen::class_mix(&mut rng, false);
        closed_form_case(&mut rng, class, out);
    });
    run_cases(agg, cfg, "closed-form-large", crate::count(cfg, 60, 1500), |cs, out| {
        let mut rng = Rng::new(cs);
        let class = if rng.chance(1, 2) {
            Class::Corner
        } else {
            Class::Large
        };
        closed_form_case(&mut rng, class, out);
    });
    run_cases(agg, cfg, "rs16", crate::count(cfg, 600, 15_000), |cs, out| {
        let mut rng = Rng::new(cs);
        rs16_case(&mut rng, out);
    });
    // exhaustive small grid at 2-byte shards, every row and slot (thorough only)
    if cfg.thorough {
        run_indexed(agg, cfg, "grid64", 64 * 64, |i, out| {
            let k = (i / 64) as usize + 1;
            let r = (i % 64) as usize + 1;
            let mut rng = Rng::new(i ^ cfg.seed);
            for rate in RateKind::ALL {
                if !gen::rate_ok(rate, k, r) {
                    continue;
                }
                let eng = *rng.pick(&EngineKind::all());
                let originals = gen::originals(&mut rng, k, 2);
                let desc = format!("grid k={k} r={r} rate={} engine={}", rate.name(), eng.name());
                match codec::encode_fresh(Api::Rate(rate, eng), k, r, 2, &originals) {
                    Err(e) => out.violate("C02:encode-err", format!("{desc}: {e}")),
                    Ok(rec) => match check_against_closed_form(&mut rng, code_rate(rate, k, r), k, r, &originals, &rec, usize::MAX) {
                        Ok(n) => out.evals += n,
                        Err(m) => out.violate(format!("C02:closed-form-mismatch:{:?}", code_rate(rate, k, r)), format!("{desc}: {m}")),
                    },
                }
                out.nontrivial_key(&desc);
            }
            out.tag("grid64");
        });
    }
}

/// which closed form the codec must follow
pub fn code_rate(rate: RateKind, k: usize, r: usize) -> CodeRate {
    match rate {
        RateKind::High => CodeRate::High,
        RateKind::Low => CodeRate::Low,
        RateKind::Default => {
            if gen::rule_high(k, r) {
                CodeRate::High
            } else {
                CodeRate::Low
            }
        }
    }
}

/// Compares recovery shards with the closed form; returns number of symbols
/// compared, or a description of the first mismatch.
pub fn check_against_closed_form(
    rng: &mut Rng,
    cr: CodeRate,
    k: usize,
    r: usize,
    originals: &[Vec<u8>],
    recovery: &[Vec<u8>],
    budget: usize,
) -> Result<u64, String> {
    let size = originals[0].len();
    let nslots = gf::slots(size);
    let gen = Generator::new(cr, k, r);
    // choose rows and slots: all if affordable, else first/last/random
    let cost_all = k * r * nslots;
    let (rows, slots): (Vec<usize>, Vec<usize>) = if cost_all <= budget {
        ((0..r).collect(), (0..nslots).collect())
    } else {
        let max_slots = nslots.min(4);
        let mut slots: Vec<usize> = vec![0, nslots - 1];
        while slots.len() < max_slots {
            slots.push(rng.below(nslots));
        }
        slots.sort_unstable();
        slots.dedup();
        let max_rows = (budget / (k * slots.len())).clamp(4, r.max(4)).min(r);
        let mut rows: Vec<usize> = vec![0, r - 1];
        // rows around chunk boundaries matter most
        let m = gen.m;
        for c in [m.saturating_sub(1), m, m + 1, r / 2] {
            if c < r {
                rows.push(c);
            }
        }
        while rows.len() < max_rows {
            rows.push(rng.below(r));
        }
        rows.sort_unstable();
        rows.dedup();
        (rows, slots)
    };
    let mut compared = 0u64;
    for q in &slots {
        let col: Vec<u16> = originals.iter().map(|o| gf::get_symbol(o, *q)).collect();
        for j in &rows {
            let want = gen.recovery_symbol(*j, &col);
            let got = gf::get_symbol(&recovery[*j], *q);
            compared += 1;
            if got != want {
                return Err(format!(
                    "recovery shard {j} slot {q}: got symbol {got:#06x}, closed form gives {want:#06x}"
                ));
            }
        }
    }
    Ok(compared)
}

fn closed_form_case(rng: &mut Rng, class: Class, out: &mut CaseOut) {
    let rate = gen::rate(rng);
    let (k, r) = gen::config(rng, class, rate);
    let size = gen::shard_size(rng, k, r);
    let api = gen::api(rng, rate, k, r);
    let poison = rng.chance(1, 2);
    let _p = Poison::new(poison, rng.next_u64());
    let originals = gen::originals_for(rng, rate, k, r, size);
    let desc = format!(
        "k={k} r={r} rate={} size={size} api={} poison={poison}",
        rate.name(),
        api.name()
    );
    let recovery = match codec::encode_fresh(api, k, r, size, &originals) {
        Ok(v) => v,
        Err(e) => {
            out.violate(
                format!("C02:encode-err:{}", codec::err_name(&e)),
                format!("{desc}: {e}"),
            );
            return;
        }
    };
    if recovery.len() != r || recovery.iter().any(|s| s.len() != size) {
        out.violate("C02:recovery-shape", format!("{desc}: wrong shape"));
        return;
    }
    let cr = code_rate(rate, k, r);
    match check_against_closed_form(rng, cr, k, r, &originals, &recovery, if crate::thorough() { 30_000_000 } else { 3_000_000 }) {
        Ok(n) => out.evals += n,
        Err(m) => out.violate(
            format!("C02:closed-form-mismatch:{:?}", cr),
            format!("{desc}: {m}"),
        ),
    }
    // one-shot encode goes through the same rule
    if rate == RateKind::Default && rng.chance(1, 4) {
        match reed_solomon_simd::encode(k, r, &originals) {
            Ok(v) if v == recovery => {}
            Ok(_) => out.violate("C02:oneshot-differs", format!("{desc}: one-shot encode differs")),
            Err(e) => out.violate("C02:oneshot-err", format!("{desc}: {e}")),
        }
    }
    out.tag(format!("rate:{}", rate.name()));
    out.tag(format!("code:{cr:?}"));
    out.tag(format!("class:{}", class.name()));
    out.tag(format!("size:{}", gen::size_class(size)));
    out.tag(format!("api:{}", api.name()));
    out.nontrivial_key(&format!("{k}/{r}/{}/{size}/{}", rate.name(), api.name()));
    out.sample = Some(jobj(&[
        ("config", jstr(&desc)),
        ("original0", jstr(&hex(&originals[0]))),
        ("recovery0", jstr(&hex(&recovery[0]))),
    ]));
}

fn rs16_encode(rate: RateKind, k: usize, r: usize, originals: &[Vec<u8>]) -> Result<Vec<Vec<u8>>, String> {
    use reed_solomon_16::engine::NoSimd;
    use reed_solomon_16::rate::{HighRateEncoder, LowRateEncoder, RateEncoder};
    let size = originals[0].len();
    fn go<T: RateEncoder<NoSimd>>(mut e: T, originals: &[Vec<u8>]) -> Result<Vec<Vec<u8>>, String> {
        for o in originals {
            e.add_original_shard(o).map_err(|e| e.to_string())?;
        }
        let res = e.encode().map_err(|e| e.to_string())?;
        Ok(res.recovery_iter().map(<[u8]>::to_vec).collect())
    }
    match rate {
        RateKind::High => go(
            HighRateEncoder::new(k, r, size, NoSimd::new(), None).map_err(|e| e.to_string())?,
            originals,
        ),
        RateKind::Low => go(
            LowRateEncoder::new(k, r, size, NoSimd::new(), None).map_err(|e| e.to_string())?,
            originals,
        ),
        RateKind::Default => reed_solomon_16::encode(k, r, originals).map_err(|e| e.to_string()),
    }
}

fn rs16_case(rng: &mut Rng, out: &mut CaseOut) {
    let rate = gen::rate(rng);
    let class = match rng.below(10) {
        0..=3 => Class::Tiny,
        4..=6 => Class::Small,
        7..=8 => Class::Edge,
        _ => Class::Medium,
    };
    let (k, r) = gen::config(rng, class, rate);
    let size = 64 * rng.range(1, 3);
    let engines = EngineKind::all();
    let api = if rate == RateKind::Default && rng.chance(1, 4) {
        Api::Wrapper
    } else {
        Api::Rate(rate, *rng.pick(&engines))
    };
    let originals = gen::originals_for(rng, rate, k, r, size);
    let desc = format!("k={k} r={r} rate={} size={size} api={}", rate.name(), api.name());
    let ours = match codec::encode_fresh(api, k, r, size, &originals) {
        Ok(v) => v,
        Err(e) => {
            out.violate("C02:encode-err", format!("{desc}: {e}"));
            return;
        }
    };
    match rs16_encode(rate, k, r, &originals) {
        Err(e) => out.inconclusive.push(format!("rs16 refused {desc}: {e}")),
        Ok(theirs) => {
            out.evals += (r * size / 2) as u64;
            if ours != theirs {
                let j = ours.iter().zip(&theirs).position(|(a, b)| a != b);
                out.violate(
                    "C02:rs16-mismatch",
                    format!("{desc}: recovery shard {j:?} differs from reed-solomon-16 0.1.0"),
                );
            }
            out.tag(format!("rs16:{}", rate.name()));
            out.tag(format!("api:{}", api.name()));
            out.nontrivial_key(&format!("rs16/{k}/{r}/{}/{size}/{}", rate.name(), api.name()));
        }
    }
    out.sample = Some(jobj(&[("config", jstr(&desc)), ("recovery0", jstr(&hex(&ours[0])))]));
}
