#!/bin/bash
# usage: process_mutant.sh <worktree> <seeded-id> <tier> <PROP[:stages]>... [-- demo cargo args]
# confirm (existing suite green with change, demo fails with / passes without), store under seeded/, run checks in scratch.
wt="$1"; id="$2"; tier="$3"; shift 3
props=(); while [ $# -gt 0 ] && [ "$1" != "--" ]; do props+=("$1"); shift; done; [ "${1:-}" = "--" ] && shift
echo "### $id"
/verif/tools/confirm_mutant.sh "$wt" "$id" "$@" 2>&1 | grep -E "test result|yes|does not|no MUTANT" | tr '\n' ';'; echo
/verif/tools/scratch_check.sh /verif/seeded/$id/patch.diff "$tier" "${props[@]}" 2>&1 | grep -E "^==|sig:|INCONCLUSIVE" | cut -c1-260
