//! C08 - supports() is exactly the documented envelope and constructors agree.
//! Oracle: the README envelope predicate written independently (gen.rs).
//! The grid 0..=65537 squared is enumerated completely on every run.

use std::sync::atomic::{AtomicU64, Ordering};
use std::sync::Mutex;

use reed_solomon_simd::engine::NoSimd;
use reed_solomon_simd::rate::{
    DefaultRate, DefaultRateDecoder, DefaultRateEncoder, HighRate, HighRateDecoder, HighRateEncoder, LowRate,
    LowRateDecoder, LowRateEncoder, Rate, RateDecoder, RateEncoder,
};
use reed_solomon_simd::{ReedSolomonDecoder, ReedSolomonEncoder};

use crate::codec::{self, Api, EngineKind, RateKind};
use crate::gen;
use crate::mon_c01::expected;
use crate::mon_c06::{hostile_count, v_config};
use crate::util::{guarded, jobj, jstr, panic_sig, run_cases, run_indexed, Agg, CaseOut, Rng, RunCfg};

const GRID: usize = 65538;

pub fn run(cfg: &RunCfg, agg: &Mutex<Agg>) {
    if cfg.stage_enabled("grid") {
        grid(cfg, agg);
    }
    run_cases(agg, cfg, "hostile-scalars", crate::count(cfg, 20_000, 400_000), |cs, out| {
        hostile(&mut Rng::new(cs), out);
    });
    run_cases(agg, cfg, "constructors", crate::count(cfg, 6000, 100_000), |cs, out| {
        constructors(&mut Rng::new(cs), out);
    });
    // every staircase corner, both orientations, with inside neighbours and
    // extremes: really encodes and decodes
    let corners = corner_list();
    run_indexed(agg, cfg, "really-works", corners.len() as u64, |i, out| {
        let (k, r) = corners[i as usize % corners.len()];
        really_works(&mut Rng::new(i ^ cfg.seed), k, r, out, cfg.thorough);
    });
    // a supported configuration reached by reset or by new(.., Some(work))
    // from any other one works like one reached by new
    run_cases(agg, cfg, "reached-by-reset", crate::count(cfg, 1500, 40_000), |cs, out| {
        reached_by_reset(&mut Rng::new(cs), out);
    });
}

fn reached_by_reset(rng: &mut Rng, out: &mut CaseOut) {
    let rate = gen::rate(rng);
    let class = match rng.below(10) {
        0..=3 => gen::Class::Tiny,
        4..=6 => gen::Class::Small,
        7..=8 => gen::Class::Edge,
        _ => gen::Class::Medium,
    };
    let (k, r) = gen::config(rng, class, rate);
    let size = if k.max(r) > 256 { *rng.pick(&[2usize, 64, 66, 128, 130]) } else { 2 * rng.range(1, 300) };
    let api = gen::api(rng, rate, k, r);
    let desc = format!("k={k} r={r} rate={} size={size} api={}", rate.name(), api.name());
    let res = guarded(|| -> Result<(), String> {
        let originals = gen::originals(rng, k, size);
        let mut enc = crate::mon_c01::preused_encoder(rng, api, rate, k, r, size).map_err(|e| format!("encoder brought to the configuration: {e}"))?;
        for o in &originals {
            enc.add(o).map_err(|e| format!("add_original_shard: {e}"))?;
        }
        let recovery = enc.encode_obs(&[]).map_err(|e| format!("encode: {e}"))?.iter;
        let (oi, ri, _) = gen::received_set(rng, k, r);
        let order = gen::add_order(rng, &oi, &ri, true);
        let mut dec = crate::mon_c01::preused_decoder(rng, api, rate, k, r, size).map_err(|e| format!("decoder brought to the configuration: {e}"))?;
        let obs = codec::decode_round(dec.as_mut(), &order, &originals, &recovery, &[]).map_err(|e| format!("decode: {e}"))?;
        if obs.iter != expected(&originals, &oi) {
            return Err("restored shards are wrong".into());
        }
        Ok(())
    });
    out.evals += 1;
    match res {
        Ok(Ok(())) => {}
        Ok(Err(m)) => out.violate("C08:reached-by-reset-does-not-work", format!("{desc}: {m}")),
        Err(p) => out.violate(format!("C08:reached-by-reset:{}", crate::util::panic_sig(&p)), format!("{desc}: {p}")),
    }
    out.tag(format!("reached-by-reset:{}", rate.name()));
    out.nontrivial_key(&format!("rbr/{desc}/{}", rng.next_u64()));
    out.sample = Some(jobj(&[("reached_by_reset", jstr(&desc))]));
}

fn corner_list() -> Vec<(usize, usize)> {
    let mut v = Vec::new();
    for (k, r) in gen::corners() {
        v.push((k, r));
        if k > 1 {
            v.push((k - 1, r));
        }
        if r > 1 {
            v.push((k, r - 1));
        }
    }
    v.extend_from_slice(&[(32768, 32768), (32767, 32768), (32768, 32767), (1, 1), (65535, 1), (1, 65535), (61440, 4096), (4096, 61440), (49152, 16384), (16385, 16384)]);
    v.sort_unstable();
    v.dedup();
    v
}

/// R(k): largest supported r for fixed k under predicate `ok` (0 if none).
/// The supported set of r for fixed k is a down-set {1..=R(k)}: each disjunct
/// of the README predicate bounds r from above only.
fn max_r(k: usize, ok: fn(usize, usize) -> bool) -> usize {
    let mut best = 0;
    for r in [1usize, 2, 4, 8, 16, 32, 64, 128, 256, 512, 1024, 2048, 4096, 8192, 16384, 32768, 32769, 49152, 57344, 61440, 63488, 64512, 65024, 65280, 65408, 65472, 65504, 65520, 65528, 65532, 65534, 65535] {
        if ok(k, r) {
            best = best.max(r);
        }
    }
    // refine upwards linearly from the best candidate (the boundary is at one
    // of the staircase values, the scan guards against a wrong candidate list)
    while ok(k, best + 1) {
        best += 1;
    }
    best
}

fn grid(cfg: &RunCfg, agg: &Mutex<Agg>) {
    let next = AtomicU64::new(0);
    let evals = AtomicU64::new(0);
    let boundary = AtomicU64::new(0);
    let supported_pts = AtomicU64::new(0);
    let direct_checks = AtomicU64::new(0);
    let found: Mutex<Vec<(String, String)>> = Mutex::new(Vec::new());
    std::thread::scope(|s| {
        for t in 0..cfg.threads.max(1) {
            let (next, evals, boundary, supported_pts, direct_checks, found) =
                (&next, &evals, &boundary, &supported_pts, &direct_checks, &found);
            s.spawn(move || {
                let mut rng = Rng::new(cfg.seed ^ (t as u64) << 32);
                loop {
                    let k = next.fetch_add(1, Ordering::Relaxed) as usize;
                    if k >= GRID {
                        break;
                    }
                    let rd = max_r(k, gen::envelope);
                    let rh = max_r(k, gen::high_ok);
                    let rl = max_r(k, gen::low_ok);
                    // the down-set shortcut is itself checked against the plain
                    // predicate near the boundary and at random points
                    let mut pts: Vec<usize> = (rd.saturating_sub(2)..=rd + 2).collect();
                    pts.extend(rh.saturating_sub(1)..=rh + 1);
                    pts.extend(rl.saturating_sub(1)..=rl + 1);
                    for _ in 0..24 {
                        pts.push(rng.below(GRID));
                    }
                    for r in pts {
                        direct_checks.fetch_add(1, Ordering::Relaxed);
                        assert_eq!(gen::envelope(k, r), r >= 1 && r <= rd, "model shortcut wrong at {k},{r}");
                        assert_eq!(gen::high_ok(k, r), r >= 1 && r <= rh, "model shortcut wrong at {k},{r}");
                        assert_eq!(gen::low_ok(k, r), r >= 1 && r <= rl, "model shortcut wrong at {k},{r}");
                    }
                    let mut bad: Option<(String, String)> = None;
                    let mut n_sup = 0u64;
                    for r in 0..GRID {
                        let wd = r >= 1 && r <= rd;
                        let wh = r >= 1 && r <= rh;
                        let wl = r >= 1 && r <= rl;
                        let gd = ReedSolomonEncoder::supports(k, r);
                        let gd2 = ReedSolomonDecoder::supports(k, r);
                        let gd3 = DefaultRate::<NoSimd>::supports(k, r);
                        let gh = HighRate::<NoSimd>::supports(k, r);
                        let gl = LowRate::<NoSimd>::supports(k, r);
                        n_sup += u64::from(wd);
                        if (gd != wd || gd2 != wd || gd3 != wd || gh != wh || gl != wl) && bad.is_none() {
                            let which = if gd != wd || gd2 != wd || gd3 != wd {
                                "default"
                            } else if gh != wh {
                                "high"
                            } else {
                                "low"
                            };
                            bad = Some((
                                format!("C08:supports-differs-from-envelope:{which}"),
                                format!("supports({k},{r}): encoder {gd} decoder {gd2} default-rate {gd3} (envelope {wd}); high {gh} (envelope part {wh}); low {gl} (envelope part {wl})"),
                            ));
                        }
                    }
                    evals.fetch_add(5 * GRID as u64, Ordering::Relaxed);
                    supported_pts.fetch_add(n_sup, Ordering::Relaxed);
                    // boundary points of this row: the last supported and the first unsupported
                    boundary.fetch_add(u64::from(rd > 0) * 2 + u64::from(rh > 0) * 2 + u64::from(rl > 0) * 2, Ordering::Relaxed);
                    if let Some(b) = bad {
                        let mut f = found.lock().unwrap();
                        if f.len() < 50 {
                            f.push(b);
                        }
                    }
                }
            });
        }
    });
    let mut out = CaseOut::default();
    out.evals = evals.load(Ordering::Relaxed);
    let b = boundary.load(Ordering::Relaxed);
    for i in 0..b {
        out.nontrivial.push(crate::util::mix(0xC08, i));
    }
    for (sig, detail) in found.into_inner().unwrap() {
        out.violate(sig, detail);
    }
    out.tag("grid-rows-complete");
    out.sample = Some(jobj(&[
        ("grid", jstr("all (k, r) in 0..=65537 x 0..=65537, five supports() predicates each")),
        ("supported_points", supported_pts.load(Ordering::Relaxed).to_string()),
        ("boundary_points", b.to_string()),
        ("model_shortcut_direct_checks", direct_checks.load(Ordering::Relaxed).to_string()),
    ]));
    let mut a = agg.lock().unwrap();
    a.extra.push(("obs_grid_exhaustive".into(), "true".into()));
    a.extra.push(("obs_grid_supported_points".into(), supported_pts.load(Ordering::Relaxed).to_string()));
    a.absorb("grid", 0, out);
}

fn hostile(rng: &mut Rng, out: &mut CaseOut) {
    let (k, r) = match rng.below(4) {
        0 => (hostile_count(rng), hostile_count(rng)),
        1 => (hostile_count(rng), rng.range(0, 70000)),
        2 => (rng.range(0, 70000), hostile_count(rng)),
        _ => {
            // around a corner
            let c = gen::corners();
            let (a, b) = *rng.pick(&c);
            ((a + rng.below(5)).saturating_sub(2), (b + rng.below(5)).saturating_sub(2))
        }
    };
    let res = guarded(|| {
        (
            [
                ReedSolomonEncoder::supports(k, r),
                ReedSolomonDecoder::supports(k, r),
                DefaultRate::<NoSimd>::supports(k, r),
                DefaultRateEncoder::<NoSimd>::supports(k, r),
                DefaultRateDecoder::<NoSimd>::supports(k, r),
            ],
            [
                HighRate::<NoSimd>::supports(k, r),
                HighRateEncoder::<NoSimd>::supports(k, r),
                HighRateDecoder::<NoSimd>::supports(k, r),
            ],
            [
                LowRate::<NoSimd>::supports(k, r),
                LowRateEncoder::<NoSimd>::supports(k, r),
                LowRateDecoder::<NoSimd>::supports(k, r),
            ],
        )
    });
    out.evals += 11;
    match res {
        Err(p) => out.violate(format!("C08:supports:{}", panic_sig(&p)), format!("supports({k},{r}) panicked: {p}")),
        Ok((d, h, l)) => {
            if d.iter().any(|x| *x != gen::envelope(k, r)) {
                out.violate("C08:supports-differs-from-envelope:default", format!("supports({k},{r}) = {d:?}, envelope {}", gen::envelope(k, r)));
            }
            if h.iter().any(|x| *x != gen::high_ok(k, r)) {
                out.violate("C08:supports-differs-from-envelope:high", format!("high supports({k},{r}) = {h:?}, expected {}", gen::high_ok(k, r)));
            }
            if l.iter().any(|x| *x != gen::low_ok(k, r)) {
                out.violate("C08:supports-differs-from-envelope:low", format!("low supports({k},{r}) = {l:?}, expected {}", gen::low_ok(k, r)));
            }
        }
    }
    if k > 65537 || r > 65537 {
        out.tag("beyond-grid");
    }
    out.nontrivial_key(&format!("hostile/{k}/{r}"));
    out.sample = Some(jobj(&[("supports", jstr(&format!("({k},{r})")))]));
}

/// new / reset / validate succeed exactly when supports && size even && != 0
fn constructors(rng: &mut Rng, out: &mut CaseOut) {
    let rate = gen::rate(rng);
    let (k, r) = match rng.below(4) {
        0 => {
            let c = gen::corners();
            let (a, b) = *rng.pick(&c);
            ((a + rng.below(5)).saturating_sub(2), (b + rng.below(5)).saturating_sub(2))
        }
        1 => (rng.range(0, 65537), rng.range(0, 65537)),
        2 => (rng.range(0, 40), rng.range(0, 40)),
        _ => {
            let a = 1usize << rng.range(0, 16);
            let b = 65536 - a;
            let (a, b) = ((a + rng.below(3)).saturating_sub(1), (b + rng.below(3)).saturating_sub(1));
            if rng.chance(1, 2) { (a, b) } else { (b, a) }
        }
    };
    let size = *rng.pick(&[0usize, 1, 2, 3, 64, 65, 2, 64]);
    let api = if rate == RateKind::Default && rng.chance(1, 3) { Api::Wrapper } else { Api::Rate(rate, EngineKind::NoSimd) };
    let want_ok = gen::rate_ok(rate, k, r) && size != 0 && size % 2 == 0;
    let v = v_config(rate, k, r, size);
    let desc = format!("{}({k},{r},{size})", api.name());
    let mut judge = |what: &str, res: Result<Result<(), reed_solomon_simd::Error>, String>| {
        out.evals += 1;
        match res {
            Err(p) => out.violate(format!("C08:{what}:{}", panic_sig(&p)), format!("{what} {desc} panicked: {p}")),
            Ok(Ok(())) if !want_ok => out.violate(
                format!("C08:{what}-succeeds-outside-envelope"),
                format!("{what} {desc} succeeded although supports/size say no"),
            ),
            Ok(Err(e)) if want_ok => out.violate(
                format!("C08:{what}-fails-inside-envelope"),
                format!("{what} {desc} failed with {e:?} although the configuration is supported and the size valid"),
            ),
            Ok(Err(e)) if !v.contains(&e) => out.violate(
                format!("C08:{what}-untruthful"),
                format!("{what} {desc} failed with {e:?}; true would be {v:?}"),
            ),
            _ => {}
        }
    };
    judge("new-encoder", guarded(|| codec::make_enc(api, k, r, size, None).map(|_| ())));
    judge("new-decoder", guarded(|| codec::make_dec(api, k, r, size, None).map(|_| ())));
    judge(
        "validate",
        guarded(|| match rate {
            RateKind::High => HighRate::<NoSimd>::validate(k, r, size),
            RateKind::Low => LowRate::<NoSimd>::validate(k, r, size),
            RateKind::Default => DefaultRate::<NoSimd>::validate(k, r, size),
        }),
    );
    // reset on a live object of the same API
    judge(
        "reset-encoder",
        guarded(|| {
            let (k0, r0) = if rate == RateKind::Low { (2, 3) } else { (3, 2) };
            let mut e = codec::make_enc(api, k0, r0, 64, None).expect("seed object");
            e.reset(k, r, size)
        }),
    );
    judge(
        "reset-decoder",
        guarded(|| {
            let (k0, r0) = if rate == RateKind::Low { (2, 3) } else { (3, 2) };
            let mut d = codec::make_dec(api, k0, r0, 64, None).expect("seed object");
            d.reset(k, r, size)
        }),
    );
    // new(.., Some(work)) with a working space that another codec (any rate
    // that supports the triple) has already set up for exactly this triple
    if size != 0 && size % 2 == 0 && api != Api::Wrapper {
        for donor in RateKind::ALL {
            if !gen::rate_ok(donor, k, r) {
                continue;
            }
            let dapi = Api::Rate(donor, EngineKind::NoSimd);
            judge(
                "new-encoder-with-recycled-work",
                guarded(|| {
                    let work = codec::make_enc(dapi, k, r, size, None).expect("donor").into_work();
                    let mut e = codec::make_enc(api, k, r, size, work)?;
                    // a constructor that succeeds must hand out a working object
                    for _ in 0..k.min(3) {
                        e.add(&vec![7u8; size])?;
                    }
                    Ok(())
                }),
            );
            judge(
                "new-decoder-with-recycled-work",
                guarded(|| {
                    let work = codec::make_dec(dapi, k, r, size, None).expect("donor").into_work();
                    codec::make_dec(api, k, r, size, work).map(|_| ())
                }),
            );
        }
    }
    out.tag(format!("ctor:{}:{}", rate.name(), if want_ok { "valid" } else { "invalid" }));
    out.nontrivial_key(&format!("ctor/{desc}"));
    out.sample = Some(jobj(&[("constructor", jstr(&desc))]));
}

/// a supported boundary configuration really encodes and decodes
fn really_works(rng: &mut Rng, k: usize, r: usize, out: &mut CaseOut, thorough: bool) {
    for rate in RateKind::ALL {
        if !gen::rate_ok(rate, k, r) {
            continue;
        }
        let engines: Vec<EngineKind> = if thorough { EngineKind::fast() } else { vec![*rng.pick(&EngineKind::fast())] };
        for eng in engines {
            for size in [2usize, 64] {
                let api = if rate == RateKind::Default && size == 2 && eng == EngineKind::Default { Api::Wrapper } else { Api::Rate(rate, eng) };
                let desc = format!("k={k} r={r} rate={} size={size} api={}", rate.name(), api.name());
                let res = guarded(|| -> Result<(), String> {
                    let originals = gen::originals(rng, k, size);
                    let recovery = codec::encode_fresh(api, k, r, size, &originals).map_err(|e| format!("encode: {e}"))?;
                    // maximum loss, a random sufficient set, and every shard there is
                    for t in 0..3 {
                        let (oi, ri) = if t == 0 {
                            let nrec = r.min(k);
                            ((0..k - nrec).collect::<Vec<_>>(), (0..nrec).collect::<Vec<_>>())
                        } else if t == 2 {
                            ((0..k).collect::<Vec<_>>(), (0..r).collect::<Vec<_>>())
                        } else {
                            let (a, b, _) = gen::received_set(rng, k, r);
                            (a, b)
                        };
                        let order = gen::add_order(rng, &oi, &ri, false);
                        // a fresh decoder (maximum loss), or one that got here by reset
                        // after an abandoned round of another configuration
                        let mut dec = if t >= 1 {
                            crate::mon_c01::preused_decoder(rng, api, rate, k, r, size).map_err(|e| format!("reset to the configuration: {e}"))?
                        } else {
                            codec::make_dec(api, k, r, size, None).map_err(|e| format!("new decoder: {e}"))?
                        };
                        let obs = codec::decode_round(dec.as_mut(), &order, &originals, &recovery, &[]).map_err(|e| format!("decode: {e}"))?;
                        if obs.iter != expected(&originals, &oi) {
                            return Err("restored shards are wrong".into());
                        }
                    }
                    Ok(())
                });
                out.evals += 1;
                match res {
                    Err(p) => out.violate(format!("C08:really-works:{}", panic_sig(&p)), format!("{desc}: {p}")),
                    Ok(Err(m)) => out.violate("C08:supported-config-does-not-work", format!("{desc}: {m}")),
                    Ok(Ok(())) => {}
                }
                out.nontrivial_key(&desc);
            }
        }
    }
    out.tag("boundary-config-roundtrips");
    out.sample = Some(jobj(&[("really_works", jstr(&format!("k={k} r={r}")))]));
}
