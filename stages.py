"""Which stages decide which property, per tier (see DESIGN.md section 3/4)."""


def rs(name, build, scale=1.0, **kw):
    d = {"name": name, "build": build, "scale": scale}
    d.update(kw)
    return d


# the same monitor under both arithmetic semantics
def both(quick_scale=1.0):
    return [rs("checked", "checked", quick_scale), rs("release", "release", quick_scale)]


ASAN_ENV = {"ASAN_OPTIONS": "detect_leaks=0:halt_on_error=1:abort_on_error=0:exitcode=23"}


def asan(scale):
    return rs("asan", "asan", scale, env=ASAN_ENV)


def valgrind(scale):
    return rs("valgrind", "release", scale, valgrind=True,
              wrapper=["valgrind", "--tool=memcheck", "--error-exitcode=0", "--leak-check=no", "-q"],
              args=["--threads", "4"])


PROPERTIES = {
    "C01": {
        "quick": [rs("checked", "checked", 1.0)],
        "thorough": [rs("checked", "checked"), rs("release", "release"), asan(0.05)],
    },
    "C02": {
        "quick": [rs("checked", "checked")],
        "thorough": [rs("checked", "checked"), rs("release", "release", 0.3)],
    },
    "C03": {
        "quick": [rs("checked", "checked")],
        "thorough": [rs("checked", "checked"), rs("release", "release", 0.5), asan(0.1), valgrind(0.002)],
    },
    "C04": {
        "quick": [rs("checked", "checked")],
        "thorough": [rs("checked", "checked"), rs("release", "release", 0.3), asan(0.1)],
    },
    "C05": {
        "quick": [rs("checked", "checked")],
        "thorough": [rs("checked", "checked"), rs("release", "release", 0.5), asan(0.1)],
    },
    "C06": {
        "quick": both(),
        "thorough": both(),
    },
    "C07": {
        "quick": both(),
        "thorough": both(),
    },
    "C10": {
        "quick": both(),
        "thorough": both(),
    },
    "C11": {
        "quick": [rs("checked", "checked")],
        "thorough": [rs("checked", "checked"), rs("release", "release", 0.3)],
    },
    "C12": {
        "quick": both(),
        "thorough": both(),
    },
    "C13": {
        "quick": [rs("checked", "checked")],
        "thorough": [rs("checked", "checked"), rs("release", "release", 0.3)],
    },
}

RULES = {
    "C01": "case = (k, r, rate, API layer, engines, shard size, data, received set, add order) drawn from classes "
           "tiny/small/edge/medium/large/corner; oracle = the originals; non-trivial = at least one original missing "
           "(so at least one recovery shard is used); distinct = hash of (k, r, rate, decoder, size, received set)",
    "C02": "case = (k, r, rate, API/engine, shard size, data); every recovery symbol (all rows x all slots when "
           "k*r*slots <= 3e6, otherwise first/last/chunk-boundary/random rows x first/last/random slots) is compared "
           "with the closed-form scaled-Cauchy matrix over the harness's own GF(2^16); stage rs16 compares bytes with "
           "reed-solomon-16 0.1.0 at 64-multiples; evaluations = symbols compared; distinct = (k, r, rate, size, api)",
    "C03": "primitive cases = (fft|ifft, pos, size=2^n, truncated_size, skew_delta, blocks per shard, random input) "
           "compared on the contract-defined outputs with Naive, plus byte-exact confinement to [pos, pos+size); "
           "mul and eval_poly cases; end-to-end = encode+decode per engine; evaluations = engine executions compared; "
           "non-trivial = size >= 2 with a non-empty defined range / at least one block / any end-to-end case",
    "C04": "case = (k, r, rate, api, size in 2..=130 step 2 or larger, data) with poison armed; slot decomposition of "
           "encode and decode at first/last/block-boundary/random slots; evaluations = slots re-coded alone; "
           "distinct = (k, r, rate, size, api)",
    "C05": "case = history of 2-8 rounds on one encoder or decoder (explicit reset / implicit reset / abandoned round / "
           "failed calls / working space recycled through into_parts into another rate and engine), each round compared "
           "with a fresh object (and the ground truth); non-trivial = round preceded by a completed round of another "
           "shape; distinct = hash of the whole history; natural and poisoned staleness counted separately",
    "C06": "case = random walk of 10-40 public calls on one object (or one static call) with hostile scalars; every "
           "call is judged against the set of literally true errors computed by a shadow model; evaluations = calls "
           "judged; distinct = hash of the call sequence",
    "C07": "case = operation stream with injected failing calls applied to a primary and (successful operations only) "
           "to a twin; non-trivial = at least one failed call followed by a completed round; distinct = hash of the stream",
    "C10": "case = argument tuple for encode()/decode() (counts, shard lists with duplicates, out-of-range indexes, "
           "mixed/invalid sizes, with and without recovery shards) compared with the streaming API and the truth model; "
           "distinct = hash of the arguments",
    "C11": "case = minimal received set decoded in ascending order (reference), 4 permutations/interleavings and 3 "
           "supersets incl. all shards; non-trivial = at least one original missing in the minimal set",
    "C12": "case = 1-50 consecutive rounds on one object; after each encode/decode every accessor is probed with "
           "in-range, boundary, 2^32, 2^63, usize::MAX and wrap-around indexes and compared with the accessor model; "
           "evaluations = rounds observed",
    "C13": "case = (config, rate, api, size, two data sets, scalar): additivity, zero and homogeneity are checked; "
           "evaluations = relations checked",
}

COMMON_ASSUMPTIONS = [
    "verdict covers only the executions produced by this run (sampled inputs; see coverage)",
    "the harness's own GF(2^16) arithmetic (self-checked against carry-less multiplication) is right",
    "x86-64 host with SSSE3 and AVX2; the Neon engine is the repository's source executed on emulated intrinsics",
]

ASSUMPTIONS = {p: list(COMMON_ASSUMPTIONS) for p in
               ["C%02d" % i for i in range(1, 18)]}
