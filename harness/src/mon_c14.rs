//! C14 - the default engine runs only SIMD code the CPU reports and picks the
//! best. Trace monitor over hook H2: a thread-local feature mask restricts what
//! runtime detection reports inside engine_default.rs, and every
//! #[target_feature] entry point bumps a thread-local (ISA, primitive) counter.

use std::sync::Mutex;

use reed_solomon_simd::engine::{DefaultEngine, Engine, ShardsRefMut};

use crate::gen::{self, Class};
use crate::hooks;
use crate::mon_c01::expected;
use crate::mon_c03::{gen_erasures, gen_transform, gen_transform_input};
use crate::util::{hash_bytes, jobj, jstr, run_cases, Agg, CaseOut, Rng, RunCfg};

/// set once any DefaultEngine::new() was seen to consult the masked detection
static NEW_REACHES_HOOK: std::sync::atomic::AtomicBool = std::sync::atomic::AtomicBool::new(false);

const AVX2: usize = 0;
const SSSE3: usize = 1;
const PRIMS: [&str; 4] = ["fft", "ifft", "mul", "eval_poly"];
const ISAS: [&str; 3] = ["avx2", "ssse3", "neon"];

pub fn run(cfg: &RunCfg, agg: &Mutex<Agg>) {
    if !hooks::armed() {
        agg.lock().unwrap().inconclusive.push("C14 trace monitor needs the verif-hooks build".into());
        return;
    }
    {
        // first DefaultEngine of the process, under the unrestricted mask
        let q0 = hooks::detect_queries();
        let _e = DefaultEngine::new();
        if hooks::detect_queries() > q0 {
            NEW_REACHES_HOOK.store(true, std::sync::atomic::Ordering::Relaxed);
        }
    }
    run_cases(agg, cfg, "primitive-trace", crate::count(cfg, 4000, 80_000), |cs, out| {
        primitive_case(&mut Rng::new(cs), out);
    });
    run_cases(agg, cfg, "codec-trace", crate::count(cfg, 1500, 30_000), |cs, out| {
        codec_case(&mut Rng::new(cs), out, false);
    });
    // working sets of 64 MiB and more (long shards x many shards): where an
    // engine would switch strategy for memory-bound work. Few cases, each
    // under all four reported subsets.
    let n = if cfg.thorough { 24 } else { 5 };
    run_cases(agg, cfg, "huge-working-set-trace", n, |cs, out| {
        let mut rng = Rng::new(cs);
        if rng.chance(1, 5) {
            codec_case(&mut rng, out, true);
        } else {
            primitive_case_with(&mut rng, out, true);
        }
    });
}

fn real(feature: usize) -> bool {
    #[cfg(target_arch = "x86_64")]
    {
        match feature {
            AVX2 => std::arch::is_x86_feature_detected!("avx2"),
            SSSE3 => std::arch::is_x86_feature_detected!("ssse3"),
            _ => false,
        }
    }
    #[cfg(not(target_arch = "x86_64"))]
    {
        let _ = feature;
        false
    }
}

/// most capable ISA among the reported ones (None = portable engine)
fn best(mask: usize) -> Option<usize> {
    if mask & 1 << AVX2 != 0 && real(AVX2) {
        Some(AVX2)
    } else if mask & 1 << SSSE3 != 0 && real(SSSE3) {
        Some(SSSE3)
    } else {
        None
    }
}

fn mask_name(mask: usize) -> String {
    let mut v = Vec::new();
    if mask & 1 << AVX2 != 0 {
        v.push("avx2");
    }
    if mask & 1 << SSSE3 != 0 {
        v.push("ssse3");
    }
    format!("{{{}}}", v.join(","))
}

fn delta(a: [[u64; 4]; 3], b: [[u64; 4]; 3]) -> [[u64; 4]; 3] {
    let mut d = [[0u64; 4]; 3];
    for i in 0..3 {
        for p in 0..4 {
            d[i][p] = b[i][p] - a[i][p];
        }
    }
    d
}

/// RAII mask
struct Mask;
impl Mask {
    fn set(mask: usize) -> Mask {
        hooks::set_feature_mask(mask);
        Mask
    }
}
impl Drop for Mask {
    fn drop(&mut self) {
        hooks::set_feature_mask(usize::MAX);
    }
}

fn best_kind(mask: usize) -> crate::codec::EngineKind {
    match best(mask) {
        Some(AVX2) => crate::codec::EngineKind::Avx2,
        Some(SSSE3) => crate::codec::EngineKind::Ssse3,
        _ => crate::codec::EngineKind::NoSimd,
    }
}

/// Judges the ISA trace `d` of an operation done through DefaultEngine under
/// the reported set `mask` against the trace `reference` of the very same
/// operation done with the best reported engine chosen explicitly: nothing
/// compiled for another ISA may run, and whatever entry points the best engine
/// itself goes through must be gone through. (What an engine does internally -
/// e.g. building one primitive from another, or not entering SIMD code at all
/// for an empty transform - is its own business and shows up in both traces.)
fn judge_against_reference(out: &mut CaseOut, mask: usize, d: [[u64; 4]; 3], reference: [[u64; 4]; 3], what: &str) {
    let b = best(mask);
    for isa in 0..3 {
        for p in 0..4 {
            if d[isa][p] > 0 && Some(isa) != b {
                let reported = mask & 1 << isa != 0 && real(isa);
                let sig = if reported {
                    format!("C14:not-the-best-isa:{}:{}", ISAS[isa], PRIMS[p])
                } else {
                    format!("C14:runs-unreported-isa:{}:{}", ISAS[isa], PRIMS[p])
                };
                out.violate(
                    sig,
                    format!("{what} under reported set {}: counter[{}][{}] moved by {}; trace {d:?}, trace of the explicitly chosen best engine {reference:?}", mask_name(mask), ISAS[isa], PRIMS[p], d[isa][p]),
                );
                return;
            }
            if d[isa][p] == 0 && reference[isa][p] > 0 {
                out.violate(
                    format!("C14:best-isa-not-used:{}:{}", ISAS[isa], PRIMS[p]),
                    format!("{what} under reported set {}: the explicitly chosen best engine enters its {} {} code for this operation, DefaultEngine did not (served by a less capable engine); trace {d:?}, reference {reference:?}", mask_name(mask), ISAS[isa], PRIMS[p]),
                );
                return;
            }
        }
    }
}

fn primitive_case(rng: &mut Rng, out: &mut CaseOut) {
    primitive_case_with(rng, out, false);
}

fn primitive_case_with(rng: &mut Rng, out: &mut CaseOut, huge: bool) {
    let prim = if huge { rng.below(2) } else { rng.below(4) };
    // the same call under all four reported subsets
    let tp = gen_transform(rng, 9);
    let mut tp = tp;
    tp.inverse = prim == 1;
    if huge {
        // size x blocks x 64 bytes between 64 and 160 MiB
        tp = crate::mon_c03::huge_transform(rng);
        tp.inverse = prim == 1;
        out.tag(format!("huge-transform:log2={}", tp.size.trailing_zeros()));
    }
    let t_input = gen_transform_input(rng, &tp);
    let blocks = rng.range(1, 6);
    let mut m_input = vec![[0u8; 64]; blocks];
    for b in m_input.iter_mut() {
        rng.fill(b);
    }
    let log_m = rng.next_u64() as u16;
    let (erasures, cover, _) = if prim == 3 { gen_erasures(rng) } else { (Box::new([0u16; 65536]), 0, "") };
    let mut digests = Vec::new();
    for mask in [3usize, 2, 1, 0] {
        let _m = Mask::set(mask);
        let q0 = hooks::detect_queries();
        let engine = DefaultEngine::new();
        let q1 = hooks::detect_queries();
        if q1 > q0 {
            NEW_REACHES_HOOK.store(true, std::sync::atomic::Ordering::Relaxed);
        } else if (real(AVX2) || real(SSSE3)) && !NEW_REACHES_HOOK.load(std::sync::atomic::Ordering::Relaxed) {
            // Detection in DefaultEngine::new never went through the masked
            // macro in this process: the mask cannot take effect, so nothing can
            // be concluded. (If it did at least once, a call without a query
            // means the answer was remembered - then the object is judged like
            // any other: the reported set is what the mask says now.)
            out.inconclusive.push("feature-mask hook never reached by DefaultEngine::new (detection no longer goes through the shadowed macro?)".into());
            return;
        }
        let run = |explicit: Option<crate::codec::EngineKind>| -> (u64, [[u64; 4]; 3]) {
            let c0 = hooks::isa_counters();
            let digest = match prim {
                0 | 1 => {
                    let mut buf = t_input.clone();
                    let mut data = ShardsRefMut::new(tp.shard_count, tp.shard_len_64, &mut buf);
                    let boxed;
                    let e: &dyn Engine = match explicit {
                        Some(k) => {
                            boxed = crate::codec::dyn_engine(k);
                            boxed.as_ref()
                        }
                        None => &engine,
                    };
                    if prim == 0 {
                        e.fft(&mut data, tp.pos, tp.size, tp.truncated, tp.skew_delta);
                    } else {
                        e.ifft(&mut data, tp.pos, tp.size, tp.truncated, tp.skew_delta);
                    }
                    // contract-defined part only
                    let end = if prim == 1 { tp.size } else { tp.truncated };
                    hash_bytes(1, buf[tp.pos * tp.shard_len_64..(tp.pos + end) * tp.shard_len_64].as_flattened())
                }
                2 => {
                    let mut b = m_input.clone();
                    match explicit {
                        Some(k) => crate::codec::dyn_engine(k).mul(&mut b, log_m),
                        None => engine.mul(&mut b, log_m),
                    }
                    hash_bytes(2, b.as_flattened())
                }
                _ => {
                    let mut e = erasures.clone();
                    match explicit {
                        Some(k) => crate::codec::eval_poly(k, &mut e, cover),
                        None => DefaultEngine::eval_poly(&mut e, cover),
                    }
                    let bytes: Vec<u8> = e.iter().flat_map(|x| x.to_le_bytes()).collect();
                    hash_bytes(3, &bytes)
                }
            };
            (digest, delta(c0, hooks::isa_counters()))
        };
        let (_, reference) = run(Some(best_kind(mask)));
        let (digest, dd) = run(None);
        out.evals += 1;
        out.add("masked feature-detection queries observed (hook H2)", hooks::detect_queries() - q0);
        for isa in 0..3 {
            out.add(format!("target_feature entry-point hits: {}", ISAS[isa]), dd[isa].iter().sum());
        }
        judge_against_reference(out, mask, dd, reference, &format!("DefaultEngine::{}", PRIMS[prim]));
        digests.push(digest);
        out.tag(format!("mask{}:{}:{}", mask_name(mask), PRIMS[prim], best(mask).map_or("portable", |i| ISAS[i])));
    }
    if digests.iter().any(|d| *d != digests[0]) {
        out.violate(
            format!("C14:result-depends-on-reported-features:{}", PRIMS[prim]),
            format!("DefaultEngine::{} gives different results under different reported subsets: {digests:?}", PRIMS[prim]),
        );
    }
    out.nontrivial_key(&format!("prim/{}/{}", prim, rng.next_u64()));
    out.sample = Some(jobj(&[("primitive", jstr(PRIMS[prim])), ("masks", jstr("{avx2,ssse3} {ssse3} {avx2} {}"))]));
}

fn codec_case(rng: &mut Rng, out: &mut CaseOut, huge: bool) {
    let class = match rng.below(10) {
        0..=4 => Class::Tiny,
        5..=7 => Class::Small,
        _ => Class::Edge,
    };
    let (mut k, mut r) = gen::config(rng, class, crate::codec::RateKind::Default);
    let mut size = gen::shard_size(rng, k, r);
    if huge {
        // one transform of the round covers 64 MiB or more
        (k, r, size) = *rng.pick(&[(2usize, 2usize, 32usize << 20), (3, 1, (16 << 20) + 64), (1, 3, (20 << 20) + 2), (40, 24, 1 << 20)]);
        out.tag("huge-codec-round");
    }
    let originals = gen::originals(rng, k, size);
    // lose at least one original so that decode does real work
    let (oi, ri) = loop {
        let (oi, ri, _) = gen::received_set(rng, k, r);
        if oi.len() < k {
            break (oi, ri);
        }
    };
    let desc = format!("k={k} r={r} size={size} given={}+{}", oi.len(), ri.len());
    let mut digests = Vec::new();
    // one round trip; `explicit` = the rate codec with that engine, None = the wrappers
    let round_trip = |explicit: Option<crate::codec::EngineKind>| -> (Vec<Vec<u8>>, Vec<(usize, Vec<u8>)>, [[u64; 4]; 3], [[u64; 4]; 3]) {
        use crate::codec::{self, Api, RateKind};
        let api = match explicit {
            Some(k) => Api::Rate(RateKind::Default, k),
            None => Api::Wrapper,
        };
        let c0 = hooks::isa_counters();
        let recovery = codec::encode_fresh(api, k, r, size, &originals).expect("encode");
        let c1 = hooks::isa_counters();
        let mut dec = codec::make_dec(api, k, r, size, None).expect("new");
        let order: Vec<(bool, usize)> = oi.iter().map(|i| (false, *i)).chain(ri.iter().map(|i| (true, *i))).collect();
        let restored = codec::decode_round(dec.as_mut(), &order, &originals, &recovery, &[]).expect("decode").iter;
        let c2 = hooks::isa_counters();
        (recovery, restored, delta(c0, c1), delta(c1, c2))
    };
    for mask in [3usize, 2, 1, 0] {
        let _m = Mask::set(mask);
        // reference: the same round trip with the best reported engine chosen explicitly
        let (_, _, ref_e, ref_d) = round_trip(Some(best_kind(mask)));
        let (recovery, restored, de, dd) = round_trip(None);
        out.evals += 2;
        judge_against_reference(out, mask, de, ref_e, &format!("{desc}: ReedSolomonEncoder round"));
        judge_against_reference(out, mask, dd, ref_d, &format!("{desc}: ReedSolomonDecoder round"));
        if restored != expected(&originals, &oi) {
            out.violate("C14:wrong-result-under-mask", format!("{desc}: restored shards wrong under reported set {}", mask_name(mask)));
        }
        let mut h = 0u64;
        for s in &recovery {
            h = hash_bytes(h, s);
        }
        digests.push(h);
        out.tag(format!("codec-mask{}", mask_name(mask)));
    }
    if digests.iter().any(|d| *d != digests[0]) {
        out.violate("C14:result-depends-on-reported-features:codec", format!("{desc}: recovery differs between reported subsets"));
    }
    out.nontrivial_key(&format!("codec/{desc}/{}", rng.next_u64()));
    out.sample = Some(jobj(&[("codec", jstr(&desc))]));
}
