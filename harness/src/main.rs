//! rsmon - runtime monitors for reed-solomon-simd (see /verif/DESIGN.md).
//!
//! rsmon <PROPERTY> [--tier quick|thorough] [--seed N] [--out FILE]
//!       [--threads N] [--budget SECS] [--stage NAME] [--case SEED] [--scale F]

#![allow(clippy::too_many_arguments, clippy::needless_range_loop)]




use std::sync::Mutex;

#[global_allocator]
static GLOBAL: rsmon::alloc::Counting = rsmon::alloc::Counting;
use std::time::Instant;

use rsmon::util::{self, Agg, RunCfg};
use rsmon::*;


fn main() {
    let args: Vec<String> = std::env::args().collect();
    if args.len() < 2 {
        eprintln!("usage: rsmon <PROPERTY> [--tier T] [--seed N] [--out F] ...");
        std::process::exit(2);
    }
    let prop = args[1].clone();
    let mut tier = "quick".to_string();
    let mut seed: u64 = 0;
    let mut out: Option<String> = None;
    let mut threads = std::thread::available_parallelism().map_or(8, |n| n.get());
    let mut budget: u64 = 3600;
    let mut stage: Option<String> = None;
    let mut case: Option<u64> = None;
    let mut scale = 1.0f64;
    let mut i = 2;
    while i < args.len() {
        let v = args.get(i + 1).cloned().unwrap_or_default();
        match args[i].as_str() {
            "--tier" => tier = v,
            "--seed" => seed = v.parse().expect("seed"),
            "--out" => out = Some(v),
            "--threads" => threads = v.parse().expect("threads"),
            "--budget" => budget = v.parse().expect("budget"),
            "--stage" => stage = Some(v),
            "--case" => case = Some(v.parse().expect("case")),
            "--scale" => scale = v.parse().expect("scale"),
            other => {
                eprintln!("unknown argument {other}");
                std::process::exit(2);
            }
        }
        i += 2;
    }
    SCALE.set(scale).ok();
    THOROUGH.store(tier == "thorough", std::sync::atomic::Ordering::Relaxed);
    util::install_panic_hook();
    let cfg = RunCfg {
        threads,
        seed,
        deadline: util::deadline_after(budget),
        only_case: case,
        only_stage: stage,
        thorough: tier == "thorough",
    };
    if prop == "C07CHILD" {
        mon_c07::child(cfg.only_case.expect("--case"));
        return;
    }
    if prop == "C16CHILD" || prop == "C16REF" {
        let seed = cfg.only_case.expect("--case");
        if prop == "C16CHILD" {
            mon_c16::child(seed);
        } else {
            mon_c16::reference(seed);
        }
        return;
    }
    let agg = Mutex::new(Agg::default());
    let t0 = Instant::now();
    match prop.as_str() {
        "C01" => mon_c01::run(&cfg, &agg),
        "C02" => mon_c02::run(&cfg, &agg),
        "C03" => mon_c03::run(&cfg, &agg),
        "C04" => mon_c04::run(&cfg, &agg),
        "C05" => mon_c05::run(&cfg, &agg),
        "C06" => mon_c06::run(&cfg, &agg),
        "C07" => mon_c07::run(&cfg, &agg),
        "C08" => mon_c08::run(&cfg, &agg),
        "C09" => mon_c09::run(&cfg, &agg),
        "C10" => mon_c10::run(&cfg, &agg),
        "C11" => mon_c11::run(&cfg, &agg),
        "C12" => mon_c12::run(&cfg, &agg),
        "C13" => mon_c13::run(&cfg, &agg),
        "C14" => mon_c14::run(&cfg, &agg),
        "C15" => mon_c15::run(&cfg, &agg),
        "C16" => mon_c16::run(&cfg, &agg),
        "C17" => mon_c17::run(&cfg, &agg),
        other => {
            eprintln!("unknown property {other}");
            std::process::exit(2);
        }
    }
    let wall = t0.elapsed().as_secs_f64();
    let mut a = agg.into_inner().unwrap();
    a.extra.push(("tier".into(), util::jstr(&tier)));
    a.extra.push(("seed".into(), seed.to_string()));
    a.extra.push(("hooks".into(), hooks::armed().to_string()));
    a.extra.push((
        "profile".into(),
        util::jstr(if cfg!(debug_assertions) {
            "checked"
        } else {
            "release"
        }),
    ));
    a.extra.push((
        "engines".into(),
        util::jlist(
            &codec::EngineKind::all()
                .iter()
                .map(|e| util::jstr(e.name()))
                .collect::<Vec<_>>(),
        ),
    ));
    let json = a.to_json(&prop, wall);
    match out {
        Some(p) => std::fs::write(p, json).expect("write --out"),
        None => println!("{json}"),
    }
    if cfg.only_case.is_some() {
        for v in &a.violations {
            eprintln!("VIOLATED {} :: {}", v.sig, v.detail);
        }
        if a.violations.is_empty() {
            eprintln!("case held");
        }
    }
}
