//! C15 - engine primitives and tables implement their mathematical contracts.
//! Oracle: definitions evaluated with the harness's own GF(2^16) (gf.rs).

use std::sync::Mutex;

use reed_solomon_simd::engine::{tables, ShardsRefMut};

use crate::codec::{self, EngineKind};
use crate::gf::Gf;
use crate::mon_c03::gen_erasures;
use crate::util::{jobj, jstr, run_cases, run_indexed, Agg, CaseOut, Rng, RunCfg};

pub fn run(cfg: &RunCfg, agg: &Mutex<Agg>) {
    run_indexed(agg, cfg, "tables", 6, |i, out| tables_case(i, out));
    // mul: all 65536 symbols for a set of multipliers per engine
    let engines = EngineKind::all();
    let per_engine: u64 = if cfg.thorough { 65536 } else { 4096 };
    let n = per_engine * engines.len() as u64;
    run_indexed(agg, cfg, "mul-all-symbols", crate::count(cfg, n, n), |i, out| {
        let eng = engines[(i % engines.len() as u64) as usize];
        let t = i / engines.len() as u64;
        let log_m: u16 = if per_engine == 65536 {
            t as u16
        } else {
            match t {
                0 => 0,
                1 => 1,
                2 => 65534,
                3 => 65535,
                _ => crate::util::mix(cfg.seed, t) as u16,
            }
        };
        mul_case(eng, log_m, out);
    });
    run_cases(agg, cfg, "transform-definition", crate::count(cfg, 1500, 30_000), |cs, out| {
        transform_case(&mut Rng::new(cs), out, 9);
    });
    run_cases(agg, cfg, "transform-definition-big", crate::count(cfg, 40, 800), |cs, out| {
        transform_case(&mut Rng::new(cs), out, 16);
    });
    run_cases(agg, cfg, "eval-poly-definition", crate::count(cfg, 120, 2500), |cs, out| {
        eval_poly_case(&mut Rng::new(cs), out);
    });
}

// ======================================================================
// tables

fn wht_mod(data: &mut [u32]) {
    // textbook Walsh-Hadamard transform, arithmetic modulo 65535
    let n = data.len();
    let mut h = 1;
    while h < n {
        for i in (0..n).step_by(2 * h) {
            for j in i..i + h {
                let a = data[j];
                let b = data[j + h];
                data[j] = (a + b) % 65535;
                data[j + h] = (a + 65535 - b) % 65535;
            }
        }
        h *= 2;
    }
}

fn tables_case(i: u64, out: &mut CaseOut) {
    let g = Gf::get();
    let mut bad = |sig: &str, detail: String| out.violations.push((sig.to_string(), detail));
    let mut n = 0u64;
    match i {
        0 => {
            let t = &*tables::EXP_LOG;
            for x in 0..65536usize {
                n += 2;
                if t.log[x] != g.log[x] {
                    bad("C15:table-log", format!("log[{x}] = {}, definition {}", t.log[x], g.log[x]));
                    break;
                }
                if t.exp[x] != g.exp[x] {
                    bad("C15:table-exp", format!("exp[{x}] = {}, definition {}", t.exp[x], g.exp[x]));
                    break;
                }
            }
            out.tag("table:exp-log");
        }
        1 => {
            let skew = &*tables::SKEW;
            let mut zeros = 0;
            for j in 0..65535usize {
                n += 1;
                let b = (j + 1).trailing_zeros();
                let x = (j + 1 - (1usize << b)) as u16;
                let v = g.s_hat(b, x);
                let want = if v == 0 { 65535 } else { g.log[v as usize] };
                if v == 0 {
                    zeros += 1;
                }
                if skew[j] != want {
                    bad("C15:table-skew", format!("skew[{j}] = {}, definition log s^_{b}({x}) = {want}", skew[j]));
                    break;
                }
            }
            // cross-check the recursion used for s_b against the plain product
            for b in 0..=8u32 {
                for x in [0u16, 1, 2, 255, 256, 257, 4097, 65535] {
                    assert_eq!(g.s(b, x), g.s_product(b, x), "own s_b recursion disagrees with product");
                }
            }
            out.tag(format!("table:skew(sentinels={zeros})"));
        }
        2 => {
            let lw = &*tables::LOG_WALSH;
            let mut d: Vec<u32> = g.log.iter().map(|x| u32::from(*x)).collect();
            d[0] = 0;
            wht_mod(&mut d);
            for x in 0..65536usize {
                n += 1;
                if u32::from(lw[x]) % 65535 != d[x] % 65535 {
                    bad("C15:table-log-walsh", format!("log_walsh[{x}] = {}, Walsh-Hadamard transform of log gives {} (mod 65535)", lw[x], d[x]));
                    break;
                }
            }
            // direct sums at a few entries (guards the textbook transform itself)
            for x in [0usize, 1, 2, 3, 255, 4096, 65535] {
                let mut s: u64 = 0;
                for j in 1..65536usize {
                    let sign_neg = (x & j).count_ones() % 2 == 1;
                    let l = u64::from(g.log[j]);
                    s = (s + if sign_neg { 65535 - l } else { l }) % 65535;
                }
                assert_eq!(s as u32 % 65535, d[x] % 65535, "textbook WHT disagrees with direct sum");
            }
            out.tag("table:log-walsh");
        }
        3 => {
            let m = &*tables::MUL16;
            'outer: for log_m in 0..65536usize {
                for t in 0..4 {
                    for i in 0..16usize {
                        n += 1;
                        let want = g.mul_log((i << (4 * t)) as u16, log_m as u16);
                        if m[log_m][t][i] != want {
                            bad("C15:table-mul16", format!("mul16[{log_m}][{t}][{i}] = {}, definition {want}", m[log_m][t][i]));
                            break 'outer;
                        }
                    }
                }
            }
            out.tag("table:mul16");
        }
        4 => {
            let m = &*tables::MUL128;
            'outer2: for log_m in 0..65536usize {
                for t in 0..4 {
                    let lo = m[log_m].lo[t].to_le_bytes();
                    let hi = m[log_m].hi[t].to_le_bytes();
                    for i in 0..16usize {
                        n += 1;
                        let want = g.mul_log((i << (4 * t)) as u16, log_m as u16);
                        if lo[i] != want as u8 || hi[i] != (want >> 8) as u8 {
                            bad("C15:table-mul128", format!("mul128[{log_m}] nibble {t} value {i}: lo {} hi {}, definition {want:#06x}", lo[i], hi[i]));
                            break 'outer2;
                        }
                    }
                }
            }
            out.tag("table:mul128");
        }
        _ => {
            // tables::mul (public helper)
            let t = &*tables::EXP_LOG;
            let mut x: u64 = 88172645463325252;
            for _ in 0..2_000_000 {
                x ^= x << 13;
                x ^= x >> 7;
                x ^= x << 17;
                n += 1;
                let (a, l) = (x as u16, (x >> 20) as u16);
                let got = tables::mul(a, l, &t.exp, &t.log);
                if got != g.mul_log(a, l) {
                    bad("C15:tables-mul", format!("tables::mul({a}, {l}) = {got}, definition {}", g.mul_log(a, l)));
                    break;
                }
            }
            out.tag("table:mul-helper");
        }
    }
    out.evals += n;
    out.nontrivial_key(&format!("tables/{i}"));
    out.sample = Some(jobj(&[("table_group", i.to_string()), ("entries_checked", n.to_string())]));
}

// ======================================================================
// mul

fn all_symbols() -> Vec<[u8; 64]> {
    let mut v = vec![[0u8; 64]; 2048];
    for s in 0..65536usize {
        let b = s / 32;
        let o = s % 32;
        v[b][o] = s as u8;
        v[b][o + 32] = (s >> 8) as u8;
    }
    v
}

fn mul_case(eng: EngineKind, log_m: u16, out: &mut CaseOut) {
    let g = Gf::get();
    let mut buf = all_symbols();
    codec::dyn_engine(eng).mul(&mut buf, log_m);
    out.evals += 65536;
    for s in 0..65536usize {
        let b = s / 32;
        let o = s % 32;
        let got = u16::from(buf[b][o]) | u16::from(buf[b][o + 32]) << 8;
        let want = g.mul_log(s as u16, log_m);
        if got != want {
            out.violate(
                format!("C15:mul-wrong:{}", eng.name()),
                format!("engine {}: {s:#06x} * g^{log_m} = {got:#06x}, field gives {want:#06x}", eng.name()),
            );
            break;
        }
    }
    // the same multiplier on blocks with structure (zero quarters, related
    // halves ...): symbols that never sit together in the enumeration above
    let mut rng = Rng::new(crate::util::mix(log_m as u64, eng as u64));
    let mut sb = vec![[0u8; 64]; 128];
    for b in sb.iter_mut() {
        rng.fill(b);
        crate::mon_c03::structure_block(&mut rng, b);
    }
    let input = sb.clone();
    if log_m % 2 == 0 {
        codec::dyn_engine(eng).mul(&mut sb, log_m);
    } else {
        // shard storage need not be aligned (see mon_c03::Misaligned)
        let mut m = crate::mon_c03::Misaligned::from_blocks(&input, 1 + (log_m as usize / 2) % 63);
        codec::dyn_engine(eng).mul(m.blocks_mut(), log_m);
        sb.copy_from_slice(m.blocks());
    }
    out.evals += 128 * 32;
    'outer: for (bi, (i, o)) in input.iter().zip(&sb).enumerate() {
        for l in 0..32 {
            let sym = u16::from(i[l]) | u16::from(i[l + 32]) << 8;
            let got = u16::from(o[l]) | u16::from(o[l + 32]) << 8;
            let want = g.mul_log(sym, log_m);
            if got != want {
                out.violate(
                    format!("C15:mul-wrong:{}", eng.name()),
                    format!("engine {}: structured block {bi} lane {l}: {sym:#06x} * g^{log_m} = {got:#06x}, field gives {want:#06x}", eng.name()),
                );
                break 'outer;
            }
        }
    }
    out.tag(format!("mul:{}", eng.name()));
    out.nontrivial_key(&format!("mul/{}/{log_m}", eng.name()));
    if log_m < 4 || log_m > 65533 {
        out.sample = Some(jobj(&[("mul", jstr(&format!("engine={} log_m={log_m} symbols=0..=65535", eng.name())))]));
    }
}

// ======================================================================
// fft / ifft against the polynomial-evaluation definition

fn lane_get(buf: &[[u8; 64]], shard: usize, lane: usize) -> u16 {
    u16::from(buf[shard][lane]) | u16::from(buf[shard][lane + 32]) << 8
}

fn lane_set(buf: &mut [[u8; 64]], shard: usize, lane: usize, v: u16) {
    buf[shard][lane] = v as u8;
    buf[shard][lane + 32] = (v >> 8) as u8;
}

/// value at point x of the polynomial with LCH coefficients `coef` (sparse list)
fn eval_at(coef: &[(usize, u16)], x: u16, cache: &mut [Option<[u16; 16]>]) -> u16 {
    let g = Gf::get();
    // s_hat_b(x) for all b, cached per point
    let sh = *cache[x as usize].get_or_insert_with(|| {
        let mut a = [0u16; 16];
        for b in 0..16u32 {
            a[b as usize] = g.s_hat(b, x);
        }
        a
    });
    let mut acc = 0u16;
    for (k, c) in coef {
        if *c == 0 {
            continue;
        }
        let mut v = *c;
        for b in 0..16 {
            if k >> b & 1 != 0 {
                v = g.mul(v, sh[b]);
            }
        }
        acc ^= v;
    }
    acc
}

fn transform_case(rng: &mut Rng, out: &mut CaseOut, max_log: usize) {
    let big = max_log > 9;
    let n = if big { rng.range(10, max_log) } else { rng.range(0, max_log) };
    let size = 1usize << n;
    let inverse = rng.chance(1, 2);
    let pos = if big { 0 } else { *rng.pick(&[0usize, 0, 3, size, 2 * size]) };
    let shard_count = pos + size + rng.below(3);
    // chunk-aligned skew offsets, including the last chunk of the field
    let chunks = 65536 / size;
    let skew_delta = size * match rng.below(4) {
        0 => 0,
        1 => chunks - 1,
        2 => 1 % chunks,
        _ => rng.below(chunks),
    };
    let truncated = match rng.below(5) {
        0 => size,
        1 => (size / 2 + 1).min(size),
        2 => 1,
        _ => rng.range(1, size),
    };
    let eng = *rng.pick(&if big { EngineKind::fast() } else { EngineKind::all() });
    let lanes = [rng.below(32), rng.below(32)];
    let desc = format!("{} size={size} pos={pos} truncated={truncated} skew_delta={skew_delta} engine={}", if inverse { "ifft" } else { "fft" }, eng.name());
    let mut buf = vec![[0u8; 64]; shard_count];
    // input: dense random for small sizes, sparse for big ones (any input is allowed)
    let mut nz: Vec<usize> = Vec::new();
    let limit = if inverse { truncated } else { size };
    if big {
        for _ in 0..rng.range(1, 24) {
            nz.push(rng.below(limit));
        }
        nz.push(limit - 1);
        nz.sort_unstable();
        nz.dedup();
    } else {
        nz = (0..limit).collect();
    }
    // a third of the cases: blocks with zero halves, zero low or high bytes,
    // constant bytes ... (shapes that uniformly random data never has)
    let structured = rng.chance(1, 3);
    for b in buf.iter_mut() {
        if !big {
            rng.fill(b); // also the shards outside the range (canaries)
            if structured {
                crate::mon_c03::structure_block(rng, b);
            }
        }
    }
    if !big && inverse {
        for s in truncated..size {
            buf[pos + s] = [0; 64];
        }
    }
    if big {
        for k in &nz {
            rng.fill(&mut buf[pos + *k]);
            if structured {
                crate::mon_c03::structure_block(rng, &mut buf[pos + *k]);
            }
        }
    }
    let input = buf.clone();
    // shards of several 64-byte blocks (odd and even counts): the block under test is
    // one column of the working set, the other columns hold unrelated data
    let l64 = if big { 1 } else { *rng.pick(&[1usize, 1, 1, 2, 3, 5, 7]) };
    let blk = if l64 == 1 {
        0
    } else if rng.chance(1, 2) {
        l64 - 1
    } else {
        rng.below(l64)
    };
    let desc = if l64 == 1 { desc } else { format!("{desc} blocks_per_shard={l64} block={blk}") };
    let mut wide = vec![[0u8; 64]; if l64 == 1 { 0 } else { shard_count * l64 }];
    if l64 > 1 {
        for s in 0..shard_count {
            for c in 0..l64 {
                let w = &mut wide[s * l64 + c];
                if c == blk {
                    *w = input[s];
                } else if !(inverse && s >= pos + truncated && s < pos + size) {
                    rng.fill(w);
                }
            }
        }
    }
    // a quarter of the small cases: shards at an unaligned address
    let off = if !big && rng.chance(1, 4) { *rng.pick(&[1usize, 8, 17, 33, 63]) } else { 0 };
    {
        let e = codec::dyn_engine(eng);
        let src: &[[u8; 64]] = if l64 > 1 { &wide } else { &input };
        let mut m = crate::mon_c03::Misaligned::from_blocks(if off != 0 { src } else { &src[..0] }, off);
        let storage: &mut [[u8; 64]] = if off != 0 {
            m.blocks_mut()
        } else if l64 > 1 {
            &mut wide
        } else {
            &mut buf
        };
        let mut data = ShardsRefMut::new(shard_count, l64, storage);
        if inverse {
            e.ifft(&mut data, pos, size, truncated, skew_delta);
        } else {
            e.fft(&mut data, pos, size, truncated, skew_delta);
        }
        if off != 0 && l64 > 1 {
            wide.copy_from_slice(m.blocks());
        } else if off != 0 {
            buf.copy_from_slice(m.blocks());
        }
        if l64 > 1 {
            for s in 0..shard_count {
                buf[s] = wide[s * l64 + blk];
            }
            out.tag(format!("blocks-per-shard:{l64}"));
        }
    }
    let mut cache: Vec<Option<[u16; 16]>> = vec![None; 65536];
    // which points are checked
    let points: Vec<usize> = if big {
        let hi = if inverse { size } else { truncated };
        let mut p = vec![0, hi - 1];
        for _ in 0..6 {
            p.push(rng.below(hi));
        }
        p
    } else if inverse {
        (0..size).collect()
    } else {
        (0..truncated).collect()
    };
    for lane in lanes {
        if !inverse {
            // out[i] = sum_k in[k] * X_k(skew_delta + i) for i < truncated, any input
            let coef: Vec<(usize, u16)> = nz.iter().map(|k| (*k, lane_get(&input, pos + *k, lane))).collect();
            for i in &points {
                out.evals += 1;
                let want = eval_at(&coef, (skew_delta + *i) as u16, &mut cache);
                let got = lane_get(&buf, pos + *i, lane);
                if got != want {
                    out.violate(
                        format!("C15:fft-not-evaluation:{}", eng.name()),
                        format!("{desc}: output {i} lane {lane} is {got:#06x}, the polynomial evaluates to {want:#06x} at point {}", skew_delta + *i),
                    );
                    return;
                }
            }
        } else {
            // outputs are the unique coefficients whose evaluation reproduces the input
            let coef: Vec<(usize, u16)> = if big {
                // the coefficient vector is dense even for sparse values: use all of it
                (0..size).map(|k| (k, lane_get(&buf, pos + k, lane))).filter(|c| c.1 != 0).collect()
            } else {
                (0..size).map(|k| (k, lane_get(&buf, pos + k, lane))).collect()
            };
            let pts: Vec<usize> = if big && coef.len() > 4096 { points.iter().take(3).copied().collect() } else { points.clone() };
            for i in &pts {
                out.evals += 1;
                let got = eval_at(&coef, (skew_delta + *i) as u16, &mut cache);
                let want = lane_get(&input, pos + *i, lane);
                if got != want {
                    out.violate(
                        format!("C15:ifft-not-inverse:{}", eng.name()),
                        format!("{desc}: evaluating the output coefficients at point {} lane {lane} gives {got:#06x}, the input value was {want:#06x}", skew_delta + *i),
                    );
                    return;
                }
            }
        }
    }
    // round trip fft(ifft(v)) == v on the whole block (all lanes)
    if inverse {
        let e = codec::dyn_engine(eng);
        let mut data = ShardsRefMut::new(shard_count, 1, &mut buf);
        e.fft(&mut data, pos, size, size, skew_delta);
        out.evals += 1;
        if buf[pos..pos + size] != input[pos..pos + size] {
            out.violate(format!("C15:fft-ifft-roundtrip:{}", eng.name()), format!("{desc}: fft(ifft(v)) != v"));
        }
    }
    let _ = lane_set;
    out.tag(format!("{}:log2={n}", if inverse { "ifft" } else { "fft" }));
    out.tag(format!("transform-engine:{}", eng.name()));
    if structured {
        out.tag("structured-input");
    }
    if skew_delta == size * (chunks - 1) {
        out.tag("last-chunk-offset");
    }
    if size >= 2 {
        out.nontrivial_key(&desc);
    }
    out.sample = Some(jobj(&[("transform", jstr(&desc))]));
}

// ======================================================================
// eval_poly against the erasure-locator definition

fn eval_poly_case(rng: &mut Rng, out: &mut CaseOut) {
    let g = Gf::get();
    let (e, cover, shape) = gen_erasures(rng);
    let marks: Vec<usize> = (0..65536).filter(|i| e[*i] != 0).collect();
    let eng = *rng.pick(&EngineKind::all());
    let t1 = cover;
    let t2 = if rng.chance(1, 2) { 65536 } else { rng.range(cover, 65536) };
    let mut r1 = e.clone();
    codec::eval_poly(eng, &mut r1, t1);
    let mut r2 = e.clone();
    codec::eval_poly(eng, &mut r2, t2);
    let desc = format!("eval_poly shape={shape} marks={} cover={cover} truncated={t1}/{t2} engine={}", marks.len(), eng.name());
    for x in 0..65536usize {
        if u32::from(r1[x]) % 65535 != u32::from(r2[x]) % 65535 {
            out.violate(
                format!("C15:eval-poly-depends-on-truncated-size:{}", eng.name()),
                format!("{desc}: result[{x}] is {} with truncated_size {t1} and {} with {t2}", r1[x], r2[x]),
            );
            return;
        }
    }
    // definition: sum over marked j != x of log(x ^ j), modulo 65535
    let xs: Vec<usize> = if marks.len() <= 64 {
        (0..65536).collect()
    } else {
        let mut v: Vec<usize> = vec![0, 1, 65535, marks[0], marks[marks.len() - 1]];
        for _ in 0..40 {
            v.push(rng.below(65536));
            v.push(*rng.pick(&marks));
        }
        v
    };
    for x in xs {
        let mut s: u64 = 0;
        for j in &marks {
            if *j != x {
                s += u64::from(g.log[x ^ *j]);
            }
        }
        out.evals += 1;
        if (s % 65535) as u32 != u32::from(r1[x]) % 65535 {
            out.violate(
                format!("C15:eval-poly-not-locator:{}", eng.name()),
                format!("{desc}: result[{x}] = {} but the locator definition gives {} (mod 65535)", r1[x], s % 65535),
            );
            return;
        }
    }
    out.tag(format!("eval-poly:{shape}"));
    out.tag(format!("eval-poly-engine:{}", eng.name()));
    out.nontrivial_key(&format!("{desc}/{}", rng.next_u64()));
    out.sample = Some(jobj(&[("eval_poly", jstr(&desc))]));
}
