#!/usr/bin/env python3
"""usage: meta.py <seeded-id> <property> <source> <needs> <detected_by as 'C05:sig1,sig2;C06:sig'> [missed 'C01']"""
import json, sys, os
sid, prop, source, needs, det = sys.argv[1:6]
missed = sys.argv[6] if len(sys.argv) > 6 else ""
d = {}
for part in det.split(";"):
    if part:
        p, sigs = part.split(":", 1)
        d[p] = sigs.split(",")
meta = {
    "id": sid,
    "breaks_property": prop,
    "source": source,
    "needs_to_manifest": needs,
    "confirmed_in_scratch_worktree": {
        "existing_suite_with_change": "cargo test --offline --lib --test integration_test -> 104 + 5 passed",
        "demo_with_change": "cargo test --offline --test seeded_demo -> FAILED",
        "demo_without_change": "git apply -R MUTANT.diff; cargo test --offline --test seeded_demo -> ok",
        "tool": "tools/confirm_mutant.sh",
    },
    "run_against_checks": "tools/try_mutant.sh seeded/%s/patch.diff quick <checks> (git -C /repo apply; python3 check.py <P>; git -C /repo checkout -- .)" % sid,
    "detected_by_quick_checks": d,
    "not_detected_by": [m for m in missed.split(",") if m],
}
json.dump(meta, open(os.path.join("/verif/seeded", sid, "meta.json"), "w"), indent=1)
print("ok", sid)
