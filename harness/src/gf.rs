//! Own GF(2^16), built only from the two published constants (field polynomial
//! 0x1002D and the 16 Cantor-basis constants). No table, transform or helper of
//! the crate under test is used here. Elements are handled as *labels*: the
//! 16-bit value the crate stores in a symbol; label j denotes the field element
//! XOR_{b in bits(j)} CANTOR[b] (written in the polynomial basis).

use std::sync::OnceLock;

pub const POLY: u32 = 0x1002D;
pub const MODULUS: u32 = 65535;
pub const CANTOR: [u16; 16] = [
    0x0001, 0xACCA, 0x3C0E, 0x163E, 0xC582, 0xED2E, 0x914C, 0x4012, 0x6C98, 0x10D8, 0x6A72, 0xB900,
    0xFDB8, 0xFB34, 0xFF38, 0x991E,
];

pub struct Gf {
    /// label -> discrete log (65535 for label 0)
    pub log: Vec<u16>,
    /// discrete log (0..65535, 65535 == 0) -> label
    pub exp: Vec<u16>,
}

/// carry-less multiplication in the polynomial basis, reduced by POLY
pub fn pmul(a: u16, b: u16) -> u16 {
    let mut acc: u32 = 0;
    let mut a = u32::from(a);
    let mut b = u32::from(b);
    while b != 0 {
        if b & 1 != 0 {
            acc ^= a;
        }
        a <<= 1;
        if a & 0x10000 != 0 {
            a ^= POLY;
        }
        b >>= 1;
    }
    acc as u16
}

pub fn cantor(label: u16) -> u16 {
    let mut v = 0u16;
    for (b, c) in CANTOR.iter().enumerate() {
        if label >> b & 1 != 0 {
            v ^= c;
        }
    }
    v
}

impl Gf {
    fn build() -> Gf {
        // powers of x in the polynomial basis
        let mut pexp = vec![0u16; 65535];
        let mut plog = vec![0u16; 65536];
        let mut state: u32 = 1;
        for i in 0..65535u32 {
            pexp[i as usize] = state as u16;
            plog[state as usize] = i as u16;
            state <<= 1;
            if state & 0x10000 != 0 {
                state ^= POLY;
            }
        }
        assert_eq!(state, 1, "x is not primitive?");
        // inverse Cantor map
        let mut inv = vec![0u16; 65536];
        let mut seen = vec![false; 65536];
        for l in 0..=65535u16 {
            let e = cantor(l);
            assert!(!seen[e as usize], "Cantor constants are not a basis");
            seen[e as usize] = true;
            inv[e as usize] = l;
        }
        let mut log = vec![0u16; 65536];
        let mut exp = vec![0u16; 65536];
        log[0] = 65535;
        for l in 1..=65535u16 {
            log[l as usize] = plog[cantor(l) as usize];
        }
        for i in 0..65535usize {
            exp[i] = inv[pexp[i] as usize];
        }
        exp[65535] = exp[0];
        let g = Gf { log, exp };
        // self-check of the log/exp tables against carry-less multiplication
        let mut x: u64 = 0x1234_5678_9abc_def1;
        for _ in 0..20000 {
            x ^= x << 13;
            x ^= x >> 7;
            x ^= x << 17;
            let a = x as u16;
            let b = (x >> 16) as u16;
            let want = inv[pmul(cantor(a), cantor(b)) as usize];
            assert_eq!(g.mul(a, b), want, "own GF self-check failed");
        }
        g
    }

    pub fn get() -> &'static Gf {
        static G: OnceLock<Gf> = OnceLock::new();
        G.get_or_init(Gf::build)
    }

    #[inline]
    pub fn mul(&self, a: u16, b: u16) -> u16 {
        if a == 0 || b == 0 {
            0
        } else {
            let s = u32::from(self.log[a as usize]) + u32::from(self.log[b as usize]);
            self.exp[(s % MODULUS) as usize]
        }
    }

    /// a * g^log_m, where log_m = 65535 means the same as 0 (times one)
    #[inline]
    pub fn mul_log(&self, a: u16, log_m: u16) -> u16 {
        if a == 0 {
            0
        } else {
            let s = u32::from(self.log[a as usize]) + u32::from(log_m);
            self.exp[(s % MODULUS) as usize]
        }
    }

    pub fn inv(&self, a: u16) -> u16 {
        assert!(a != 0);
        self.exp[((MODULUS - u32::from(self.log[a as usize])) % MODULUS) as usize]
    }

    pub fn div(&self, a: u16, b: u16) -> u16 {
        self.mul(a, self.inv(b))
    }

    /// s_b(x) = prod_{t < 2^b} (x ^ t): vanishing polynomial of the labels
    /// 0..2^b-1, by the recursion s_{b+1}(x) = s_b(x) * (s_b(x) ^ s_b(2^b)).
    pub fn s(&self, b: u32, x: u16) -> u16 {
        let mut v = x;
        for i in 0..b {
            let c = self.s_at_pow2(i);
            v = self.mul(v, v ^ c);
        }
        v
    }

    /// s_b(2^b)
    pub fn s_at_pow2(&self, b: u32) -> u16 {
        static C: OnceLock<[u16; 16]> = OnceLock::new();
        C.get_or_init(|| {
            let mut c = [0u16; 16];
            for b in 0..16u32 {
                // s_b(2^b) using constants of lower levels only
                let mut v: u16 = 1 << b;
                for i in 0..b {
                    v = self.mul(v, v ^ c[i as usize]);
                }
                c[b as usize] = v;
            }
            c
        })[b as usize]
    }

    /// the same by the plain product (slow; used to cross-check the recursion)
    pub fn s_product(&self, b: u32, x: u16) -> u16 {
        let mut v = 1u16;
        for t in 0..(1u32 << b) {
            v = self.mul(v, x ^ (t as u16));
        }
        v
    }

    /// normalised s_b: s_b(x) / s_b(2^b)
    pub fn s_hat(&self, b: u32, x: u16) -> u16 {
        self.div(self.s(b, x), self.s_at_pow2(b))
    }

    /// log of W_m = product of the labels 1..m-1 (m = 2^b)
    pub fn log_w(&self, b: u32) -> u32 {
        let mut s: u64 = 0;
        for t in 1..(1u32 << b) {
            s += u64::from(self.log[t as usize]);
        }
        (s % u64::from(MODULUS)) as u32
    }

    /// LCH basis polynomial X_k(x) = prod_{b in bits(k)} s_hat_b(x)
    pub fn basis(&self, k: usize, x: u16) -> u16 {
        let mut v = 1u16;
        for b in 0..16u32 {
            if k >> b & 1 != 0 {
                v = self.mul(v, self.s_hat(b, x));
            }
        }
        v
    }
}

// ======================================================================
// The closed-form generator matrix

#[derive(Clone, Copy, PartialEq, Eq, Debug, Hash)]
pub enum CodeRate {
    High,
    Low,
}

/// Row/column factor logs so that
/// log G[j][i] = num[.] - log_w - log(denominator label)  (mod 65535)
pub struct Generator {
    pub rate: CodeRate,
    pub k: usize,
    pub r: usize,
    pub m: usize,
    /// high: log s_m(m+i) per original i; low: log s_m(m+j) per recovery j
    num_log: Vec<u32>,
    log_w: u32,
}

impl Generator {
    pub fn new(rate: CodeRate, k: usize, r: usize) -> Generator {
        let g = Gf::get();
        let m = match rate {
            CodeRate::High => r.next_power_of_two(),
            CodeRate::Low => k.next_power_of_two(),
        };
        let b = m.trailing_zeros();
        let n = match rate {
            CodeRate::High => k,
            CodeRate::Low => r,
        };
        let num_log = (0..n)
            .map(|t| u32::from(g.log[g.s(b, (m + t) as u16) as usize]))
            .collect();
        Generator {
            rate,
            k,
            r,
            m,
            num_log,
            log_w: g.log_w(b),
        }
    }

    /// discrete log of G[j][i] (never zero)
    #[inline]
    pub fn log_entry(&self, j: usize, i: usize) -> u32 {
        let g = Gf::get();
        let (num, den) = match self.rate {
            CodeRate::High => (self.num_log[i], (j ^ (self.m + i)) as u16),
            CodeRate::Low => (self.num_log[j], ((self.m + j) ^ i) as u16),
        };
        (num + 2 * MODULUS - self.log_w - u32::from(g.log[den as usize])) % MODULUS
    }

    /// recovery symbol j for one slot given the k original symbols of that slot
    pub fn recovery_symbol(&self, j: usize, originals: &[u16]) -> u16 {
        let g = Gf::get();
        let mut acc = 0u16;
        for (i, d) in originals.iter().enumerate() {
            if *d != 0 {
                let l = (self.log_entry(j, i) + u32::from(g.log[*d as usize])) % MODULUS;
                acc ^= g.exp[l as usize];
            }
        }
        acc
    }
}

// ======================================================================
// Documented byte placement of symbols in a shard

/// number of 16-bit symbol slots in a shard of `len` bytes (len even)
pub fn slots(len: usize) -> usize {
    len / 2
}

/// byte offsets (lo, hi) of slot `q` in a shard of `len` bytes: full 64-byte
/// blocks hold 32 low bytes then 32 high bytes; a shorter final block of t
/// bytes holds t/2 low bytes then t/2 high bytes.
pub fn slot_offsets(len: usize, q: usize) -> (usize, usize) {
    let full = len / 64;
    let tail = len % 64;
    if q < full * 32 {
        let b = q / 32;
        let o = q % 32;
        (b * 64 + o, b * 64 + 32 + o)
    } else {
        let o = q - full * 32;
        debug_assert!(o < tail / 2);
        (full * 64 + o, full * 64 + tail / 2 + o)
    }
}

pub fn get_symbol(shard: &[u8], q: usize) -> u16 {
    let (lo, hi) = slot_offsets(shard.len(), q);
    u16::from(shard[lo]) | (u16::from(shard[hi]) << 8)
}

pub fn set_symbol(shard: &mut [u8], q: usize, v: u16) {
    let (lo, hi) = slot_offsets(shard.len(), q);
    shard[lo] = v as u8;
    shard[hi] = (v >> 8) as u8;
}

pub fn to_symbols(shard: &[u8]) -> Vec<u16> {
    (0..slots(shard.len())).map(|q| get_symbol(shard, q)).collect()
}

pub fn from_symbols(sym: &[u16]) -> Vec<u8> {
    let mut s = vec![0u8; sym.len() * 2];
    for (q, v) in sym.iter().enumerate() {
        set_symbol(&mut s, q, *v);
    }
    s
}
