//! Shim over the crate's verification hooks; every function degrades to a
//! no-op (and `armed()` to false) when the harness is built without `hooks`.

#[cfg(feature = "hooks")]
pub use reed_solomon_simd::verif_hooks as vh;

pub fn armed() -> bool {
    cfg!(feature = "hooks")
}

pub fn set_poison(seed: u64) {
    #[cfg(feature = "hooks")]
    vh::set_poison(seed);
    #[cfg(not(feature = "hooks"))]
    let _ = seed;
}

pub fn poison_fills() -> u64 {
    #[cfg(feature = "hooks")]
    return vh::poison_fills();
    #[cfg(not(feature = "hooks"))]
    0
}

pub fn set_feature_mask(mask: usize) {
    #[cfg(feature = "hooks")]
    vh::set_feature_mask(mask);
    #[cfg(not(feature = "hooks"))]
    let _ = mask;
}

pub fn isa_counters() -> [[u64; 4]; 3] {
    #[cfg(feature = "hooks")]
    return vh::isa_counters();
    #[cfg(not(feature = "hooks"))]
    [[0; 4]; 3]
}

pub fn detect_queries() -> u64 {
    #[cfg(feature = "hooks")]
    return vh::detect_queries();
    #[cfg(not(feature = "hooks"))]
    0
}

pub fn table_event(table: u64, kind: u64) {
    #[cfg(feature = "hooks")]
    vh::table_event(table, kind);
    #[cfg(not(feature = "hooks"))]
    let _ = (table, kind);
}

pub fn table_events() -> Vec<(u64, u64, u64)> {
    #[cfg(feature = "hooks")]
    return vh::table_events();
    #[cfg(not(feature = "hooks"))]
    Vec::new()
}

/// RAII: poison armed for the lifetime of the guard (if `on`)
pub struct Poison(bool);
impl Poison {
    pub fn new(on: bool, seed: u64) -> Poison {
        if on {
            set_poison(seed | 1);
        }
        Poison(on)
    }
}
impl Drop for Poison {
    fn drop(&mut self) {
        if self.0 {
            set_poison(0);
        }
    }
}
