//! C11 - decoding is independent of arrival order and of surplus shards.
//! Metamorphic oracle: reference = ascending order, exactly the minimal set;
//! plus the ground truth.

use std::sync::Mutex;

use crate::codec::{self, Api, EngineKind};
use crate::gen;
use crate::hooks::Poison;
use crate::mon_c01::{expected, first_diff};
use crate::util::{jobj, jstr, run_cases, Agg, CaseOut, Rng, RunCfg};

pub fn run(cfg: &RunCfg, agg: &Mutex<Agg>) {
    run_cases(agg, cfg, "order-and-surplus", crate::count(cfg, 5000, 120_000), |cs, out| {
        case(&mut Rng::new(cs), out);
    });
}

fn case(rng: &mut Rng, out: &mut CaseOut) {
    let rate = gen::rate(rng);
    let allow_large = rng.chance(1, 10);
    let class = gen::class_mix(rng, allow_large);
    let (k, r) = gen::config(rng, class, rate);
    let size = gen::shard_size(rng, k, r);
    let api = gen::api(rng, rate, k, r);
    let poison = rng.chance(1, 2);
    let _p = Poison::new(poison, rng.next_u64());
    let originals = gen::originals(rng, k, size);
    let desc = format!("k={k} r={r} rate={} size={size} api={}", rate.name(), api.name());
    let recovery = match codec::encode_fresh(Api::Rate(rate, EngineKind::NoSimd), k, r, size, &originals) {
        Ok(v) => v,
        Err(e) => {
            out.violate("C11:encode-failed", format!("{desc}: {e}"));
            return;
        }
    };
    // minimal sufficient set: exactly k shards
    let (mut oi, mut ri, _) = gen::received_set(rng, k, r);
    while oi.len() + ri.len() > k {
        if !ri.is_empty() && (oi.is_empty() || rng.chance(1, 2)) {
            let n = ri.len();
            ri.remove(rng.below(n));
        } else {
            let n = oi.len();
            oi.remove(rng.below(n));
        }
    }
    // every decode of the case on its own decoder object: fresh ones and ones
    // with a past (another configuration, an abandoned round) alternate
    let pre_seed = rng.next_u64();
    let counter = std::cell::Cell::new(0u64);
    let decode = |order: &[(bool, usize)]| {
        counter.set(counter.get() + 1);
        let mut prng = Rng::new(pre_seed ^ counter.get());
        let dec = if counter.get() % 2 == 0 {
            crate::mon_c01::preused_decoder(&mut prng, api, rate, k, r, size)
        } else {
            codec::make_dec(api, k, r, size, None)
        };
        dec.and_then(|mut d| codec::decode_round(d.as_mut(), order, &originals, &recovery, &[]))
    };
    let reference_order = gen::add_order(rng, &oi, &ri, false);
    let reference = match decode(&reference_order) {
        Ok(o) => o.iter,
        Err(e) => {
            out.violate("C11:reference-decode-failed", format!("{desc}: {e}"));
            return;
        }
    };
    let want = expected(&originals, &oi);
    if reference != want {
        out.violate("C11:reference-wrong", format!("{desc}: {}", first_diff(&reference, &want)));
        return;
    }
    let big = k.max(r) > 4096;
    // permutations / interleavings of the same set
    for t in 0..if big { 1 } else { 4 } {
        let mut order = reference_order.clone();
        match t {
            0 => order.reverse(),
            1 => {
                // recovery first, then originals descending
                order.sort_by_key(|(is_rec, i)| (!*is_rec, usize::MAX - *i));
            }
            _ => rng.shuffle(&mut order),
        }
        out.evals += 1;
        match decode(&order) {
            Err(e) => out.violate("C11:permuted-decode-failed", format!("{desc}: {e}")),
            Ok(o) => {
                if o.iter != reference {
                    out.violate(
                        "C11:order-dependent",
                        format!("{desc}: permutation {t} of the same {} shards: {}", order.len(), first_diff(&o.iter, &reference)),
                    );
                }
            }
        }
    }
    // supersets
    for t in 0..if big { 1 } else { 3 } {
        let mut oi2 = oi.clone();
        let mut ri2 = ri.clone();
        let extra_o: Vec<usize> = (0..k).filter(|i| !oi.contains(i)).collect();
        let extra_r: Vec<usize> = (0..r).filter(|i| !ri.contains(i)).collect();
        match t {
            0 => {
                // everything
                oi2 = (0..k).collect();
                ri2 = (0..r).collect();
            }
            1 => {
                // all recovery shards on top
                ri2 = (0..r).collect();
            }
            _ => {
                for i in &extra_o {
                    if rng.chance(1, 3) {
                        oi2.push(*i);
                    }
                }
                for i in &extra_r {
                    if rng.chance(1, 2) {
                        ri2.push(*i);
                    }
                }
            }
        }
        let order = gen::add_order(rng, &oi2, &ri2, true);
        let want2 = expected(&originals, &oi2);
        out.evals += 1;
        match decode(&order) {
            Err(e) => out.violate("C11:superset-decode-failed", format!("{desc}: {e}")),
            Ok(o) => {
                if o.iter != want2 {
                    let sig = if oi2.len() == k {
                        "C11:nonempty-when-all-originals-given"
                    } else if o.iter.iter().any(|(i, _)| oi2.contains(i)) {
                        "C11:given-original-reported-restored"
                    } else {
                        "C11:surplus-dependent"
                    };
                    out.violate(
                        sig,
                        format!("{desc}: superset {}+{} of minimal {}+{}: {}", oi2.len(), ri2.len(), oi.len(), ri.len(), first_diff(&o.iter, &want2)),
                    );
                }
            }
        }
        if oi2.len() == k {
            out.tag("all-originals-given");
        }
    }
    out.tag(format!("rate:{}", rate.name()));
    out.tag(format!("class:{}", class.name()));
    out.tag(format!("api:{}", api.name()));
    if !want.is_empty() {
        out.nontrivial_key(&format!("{desc}/{oi:?}/{ri:?}"));
    }
    out.sample = Some(jobj(&[
        ("config", jstr(&desc)),
        ("minimal_set", jstr(&format!("orig {:?} rec {:?}", &oi[..oi.len().min(8)], &ri[..ri.len().min(8)]))),
    ]));
}
