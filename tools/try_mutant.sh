#!/bin/bash
# usage: try_mutant.sh <patch.diff> <tier> <PROP>...   - applies the patch to /repo, runs the checks, reverts.
set -u
patch="$1"; tier="$2"; shift 2
cd /repo || exit 2
if ! git diff --quiet; then echo "/repo has uncommitted changes"; exit 2; fi
git apply "$patch" || { echo "patch does not apply"; exit 2; }
trap 'git -C /repo checkout -- . ' EXIT
for p in "$@"; do
  out=$(cd /verif && python3 check.py "$p" --tier "$tier" 2>/dev/null)
  rc=$?
  nv=$(echo "$out" | grep -c '^VIOLATION')
  echo "== $p exit=$rc violations=$nv $(echo "$out" | grep -E '^(HELD|BROKEN|INCONCLUSIVE)' | head -2 | cut -c1-160)"
  if [ "$nv" -gt 0 ]; then
    python3 - "$p" <<'PY'
import json,sys
e=json.load(open(f'/verif/evidence/{sys.argv[1]}.json'))
for s in e['coverage']['violation_signatures'][:8]: print('     sig:',s)
PY
  fi
done
