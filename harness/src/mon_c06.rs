//! C06 - invalid use yields a truthful documented Error; valid use never
//! fails; no panics. Oracle: a shadow-state precondition model that computes,
//! for every call, the set V of literally true error values. V empty => the
//! call must return Ok; V non-empty => it must return Err(e) with e in V (any
//! member: the order in which the crate checks is not prescribed).

use std::collections::BTreeSet;
use std::sync::Mutex;

use reed_solomon_simd::Error;

use crate::codec::{self, Api, DynDec, DynEnc, EngineKind, RateKind};
use crate::gen;
use crate::util::{guarded, jlist, jobj, jstr, panic_sig, run_cases, Agg, CaseOut, Rng, RunCfg};

pub fn run(cfg: &RunCfg, agg: &Mutex<Agg>) {
    run_cases(agg, cfg, "encoder-calls", crate::count(cfg, 6000, 150_000), |cs, out| {
        encoder_walk(&mut Rng::new(cs), out);
    });
    run_cases(agg, cfg, "decoder-calls", crate::count(cfg, 6000, 150_000), |cs, out| {
        decoder_walk(&mut Rng::new(cs), out);
    });
    run_cases(agg, cfg, "static-calls", crate::count(cfg, 20_000, 500_000), |cs, out| {
        static_calls(&mut Rng::new(cs), out);
    });
}

// ======================================================================
// Model

pub fn v_config(rate: RateKind, k: usize, r: usize, size: usize) -> Vec<Error> {
    let mut v = Vec::new();
    if !gen::rate_ok(rate, k, r) {
        v.push(Error::UnsupportedShardCount {
            original_count: k,
            recovery_count: r,
        });
    }
    if size == 0 || size % 2 != 0 {
        v.push(Error::InvalidShardSize { shard_bytes: size });
    }
    v
}

pub fn hostile_count(rng: &mut Rng) -> usize {
    match rng.below(16) {
        0 => 0,
        1 => 1,
        2 => 2,
        3 => 32768,
        4 => 32769,
        5 => 65535,
        6 => 65536,
        7 => 65537,
        8 => 1usize << 32,
        9 => 1usize << 63,
        10 => (1usize << 63) + 1,
        11 => usize::MAX,
        12 => rng.range(1, 64),
        13 => rng.range(1, 70000),
        14 => 1usize << rng.range(0, 17),
        _ => (1usize << rng.range(1, 16)) + 1,
    }
}

/// shard size argument for new/reset/validate. Valid even sizes stay small
/// (a successful call allocates positions x size); invalid ones may be huge.
pub fn hostile_size(rng: &mut Rng) -> usize {
    match rng.below(14) {
        0 => 0,
        1 => 1,
        2 => 3,
        3 => 63,
        4 => 65,
        5 => usize::MAX,
        6 => (1usize << 63) + 1,
        7 => (1usize << 32) + 1,
        8 => 2 * rng.range(1, 80) + 1,
        9 => 2,
        10 => 64,
        11 => 66,
        _ => 2 * rng.range(1, 70),
    }
}

pub fn hostile_index(rng: &mut Rng, count: usize, base_hint: usize) -> usize {
    match rng.below(14) {
        0 => count.wrapping_sub(1),
        1 => count,
        2 => count + 1,
        3 => 1usize << 32,
        4 => 1usize << 63,
        5 => usize::MAX,
        6 => usize::MAX - 1,
        // wraps onto a valid position when added to a non-zero base in release
        7 => usize::MAX - base_hint + 1,
        8 => (usize::MAX - base_hint + 1).wrapping_add(rng.below(count.max(1))),
        9 => 65535,
        10 => 65536,
        _ => rng.below(count.max(1)),
    }
}

fn hostile_len(rng: &mut Rng, size: usize) -> usize {
    match rng.below(10) {
        0 => 0,
        1 => 1,
        2 => size.saturating_sub(2),
        3 => size.saturating_sub(1),
        4 => size + 1,
        5 => size + 2,
        6 => 63,
        7 => 65,
        8 => size * 2,
        _ => rng.range(0, 200),
    }
}

fn small_config(rng: &mut Rng, rate: RateKind) -> (usize, usize, usize) {
    let class = match rng.below(10) {
        0..=5 => gen::Class::Tiny,
        6..=8 => gen::Class::Small,
        _ => gen::Class::Edge,
    };
    let (k, r) = gen::config(rng, class, rate);
    let size = if k.max(r) <= 16 && rng.chance(1, 12) {
        *rng.pick(&[4096usize, 65534, 65536])
    } else {
        *rng.pick(&[2usize, 4, 30, 62, 64, 66, 100, 130])
    };
    (k, r, size)
}

fn pick_api(rng: &mut Rng) -> Api {
    if rng.chance(1, 5) {
        Api::Wrapper
    } else {
        Api::Rate(gen::rate(rng), *rng.pick(&[EngineKind::NoSimd, EngineKind::Default, EngineKind::Naive, EngineKind::Avx2]))
    }
}

fn api_rate(api: Api) -> RateKind {
    match api {
        Api::Wrapper => RateKind::Default,
        Api::Rate(r, _) => r,
    }
}

/// Judges one call. Returns true if the call behaved (so that the shadow may
/// be advanced according to `res`).
fn judge<T>(
    out: &mut CaseOut,
    what: &str,
    v: &[Error],
    res: &Result<Result<T, Error>, String>,
    trail: &[String],
) {
    out.evals += 1;
    match res {
        Err(p) => out.violate(
            format!("C06:{}:{}", what.split('(').next().unwrap_or(what), panic_sig(p)),
            format!("{what} panicked: {p}; calls so far: {}", trail.join(" ; ")),
        ),
        Ok(Ok(_)) => {
            if !v.is_empty() {
                out.violate(
                    format!("C06:{}:ok-despite-violation", what.split('(').next().unwrap_or(what)),
                    format!("{what} returned Ok although {:?} holds; calls so far: {}", v[0], trail.join(" ; ")),
                );
            } else {
                out.tag("ok-calls");
            }
        }
        Ok(Err(e)) => {
            if v.is_empty() {
                out.violate(
                    format!("C06:{}:err-on-valid-use:{}", what.split('(').next().unwrap_or(what), codec::err_name(e)),
                    format!("{what} returned {e:?} although no precondition is violated; calls so far: {}", trail.join(" ; ")),
                );
            } else if !v.contains(e) {
                out.violate(
                    format!("C06:{}:untruthful:{}", what.split('(').next().unwrap_or(what), codec::err_name(e)),
                    format!("{what} returned {e:?}, which is not true; true would be one of {v:?}; calls so far: {}", trail.join(" ; ")),
                );
            } else {
                out.tag(format!("err:{}", codec::err_name(e)));
                // the text of a truthful error must be truthful too
                if !codec::display_mentions_fields(e) {
                    out.violate(
                        format!("C06:{}:error-text-omits-a-value:{}", what.split('(').next().unwrap_or(what), codec::err_name(e)),
                        format!("{what} returned {e:?}, whose Display text is \"{e}\" - it does not mention every value the error carries"),
                    );
                }
            }
        }
    }
}

// ======================================================================
// Encoder random walk

/// The kind of codec that takes over the working space in a hand-over step:
/// any rate (often the other one) and engine.
fn handover_api(rng: &mut Rng) -> Api {
    Api::Rate(gen::rate(rng), *rng.pick(&[EngineKind::NoSimd, EngineKind::Default, EngineKind::Avx2]))
}

fn encoder_walk(rng: &mut Rng, out: &mut CaseOut) {
    let mut api = pick_api(rng);
    let mut rate = api_rate(api);
    let (mut k, mut r, mut size) = small_config(rng, rate);
    let mut trail: Vec<String> = vec![format!("new {}({k},{r},{size})", api.name())];
    let mut enc: Box<dyn DynEnc> = match guarded(|| codec::make_enc(api, k, r, size, None)) {
        Ok(Ok(e)) => e,
        Ok(Err(e)) => {
            out.violate("C06:new:err-on-valid-use", format!("{}: {e:?}", trail[0]));
            return;
        }
        Err(p) => {
            out.violate(format!("C06:new:{}", panic_sig(&p)), format!("{}: {p}", trail[0]));
            return;
        }
    };
    let mut count = 0usize;
    let mut distinct_errs: BTreeSet<&'static str> = BTreeSet::new();
    let steps = rng.range(10, if crate::thorough() { 200 } else { 40 });
    for _ in 0..steps {
        let before = out.violations.len();
        match rng.below(11) {
            // the working space goes to a new encoder (`into_parts`, then
            // `new(.., Some(work))`), of any rate: same configuration, another
            // valid one, or hostile arguments
            10 => {
                let api2 = handover_api(rng);
                let rate2 = api_rate(api2);
                let (nk, nr, ns) = match rng.below(4) {
                    0 | 1 => (k, r, size),
                    2 => small_config(rng, rate2),
                    _ => (hostile_count(rng), hostile_count(rng), hostile_size(rng)),
                };
                let what = format!("{}::new({nk},{nr},{ns}, work of the previous object)", api2.name());
                let v = v_config(rate2, nk, nr, ns);
                let placeholder = codec::make_enc(Api::Wrapper, 1, 1, 2, None).expect("placeholder");
                let work = std::mem::replace(&mut enc, placeholder).into_work();
                let handed = work.is_some();
                let res = guarded(|| codec::make_enc(api2, nk, nr, ns, work).map(|e| e as Box<dyn DynEnc>));
                judge(out, &what, &v, &res, &trail);
                trail.push(what);
                match res {
                    Ok(Ok(e)) => {
                        enc = e;
                        (api, rate, k, r, size) = (api2, rate2, nk, nr, ns);
                        if handed {
                            out.tag("handover-steps");
                        }
                    }
                    _ => {
                        // the working space is gone: carry on with a fresh object
                        enc = codec::make_enc(api, k, r, size, None).expect("fresh object");
                        trail.push(format!("new {}({k},{r},{size})", api.name()));
                    }
                }
                count = 0;
            }
            // add a shard (valid or hostile length)
            0..=4 => {
                let len = if rng.chance(2, 3) { size } else { hostile_len(rng, size) };
                let shard = rng.bytes(len);
                let what = format!("add_original_shard(len={len})");
                let mut v = Vec::new();
                if count == k {
                    v.push(Error::TooManyOriginalShards { original_count: k });
                }
                if len != size {
                    v.push(Error::DifferentShardSize { shard_bytes: size, got: len });
                }
                let res = guarded(|| enc.add(&shard));
                judge(out, &what, &v, &res, &trail);
                if let Ok(Ok(())) = res {
                    count += 1;
                }
                if let Ok(Err(e)) = &res {
                    distinct_errs.insert(codec::err_name(e));
                }
                trail.push(what);
            }
            5..=6 => {
                let what = format!("encode() with {count}/{k} added");
                let mut v = Vec::new();
                if count < k {
                    v.push(Error::TooFewOriginalShards {
                        original_count: k,
                        original_received_count: count,
                    });
                }
                let res = guarded(|| enc.encode_obs(&[0, r, usize::MAX]));
                judge(out, &what, &v, &res, &trail);
                if let Ok(Ok(obs)) = &res {
                    if obs.iter.len() != r || obs.iter.iter().any(|s| s.len() != size) {
                        out.violate("C06:encode:wrong-shape", format!("{what}: {} shards", obs.iter.len()));
                    }
                    count = 0;
                }
                if let Ok(Err(e)) = &res {
                    distinct_errs.insert(codec::err_name(e));
                }
                trail.push(what);
            }
            _ => {
                // reset with hostile or valid arguments
                let (nk, nr, ns) = if rng.chance(1, 3) {
                    small_config(rng, rate)
                } else {
                    (hostile_count(rng), hostile_count(rng), hostile_size(rng))
                };
                let what = format!("reset({nk},{nr},{ns})");
                let v = v_config(rate, nk, nr, ns);
                let res = guarded(|| enc.reset(nk, nr, ns));
                judge(out, &what, &v, &res, &trail);
                if let Ok(Ok(())) = res {
                    k = nk;
                    r = nr;
                    size = ns;
                    count = 0;
                }
                if let Ok(Err(e)) = &res {
                    distinct_errs.insert(codec::err_name(e));
                }
                trail.push(what);
            }
        }
        if out.violations.len() > before {
            break; // the shadow may be out of sync from here on
        }
    }
    out.tag(format!("api:{}", api.name()));
    out.nontrivial_key(&format!("enc/{}", trail.join(";")));
    out.sample = Some(jobj(&[
        ("kind", jstr("encoder-calls")),
        ("calls", jlist(&trail.iter().take(12).map(|s| jstr(s)).collect::<Vec<_>>())),
    ]));
}

// ======================================================================
// Decoder random walk

fn decoder_walk(rng: &mut Rng, out: &mut CaseOut) {
    let mut api = pick_api(rng);
    let mut rate = api_rate(api);
    let (mut k, mut r, mut size) = small_config(rng, rate);
    let mut trail: Vec<String> = vec![format!("new {}({k},{r},{size})", api.name())];
    let mut dec: Box<dyn DynDec> = match guarded(|| codec::make_dec(api, k, r, size, None)) {
        Ok(Ok(e)) => e,
        Ok(Err(e)) => {
            out.violate("C06:new:err-on-valid-use", format!("{}: {e:?}", trail[0]));
            return;
        }
        Err(p) => {
            out.violate(format!("C06:new:{}", panic_sig(&p)), format!("{}: {p}", trail[0]));
            return;
        }
    };
    let mut got_o: BTreeSet<usize> = BTreeSet::new();
    let mut got_r: BTreeSet<usize> = BTreeSet::new();
    let steps = rng.range(10, if crate::thorough() { 200 } else { 40 });
    // the working-space position bases (used only to aim wrap-around indexes)
    let base = |k: usize, r: usize| k.next_power_of_two().max(r.next_power_of_two());
    for _ in 0..steps {
        let before = out.violations.len();
        match rng.below(13) {
            // hand-over of the working space, as in the encoder walk
            12 => {
                let api2 = handover_api(rng);
                let rate2 = api_rate(api2);
                let (nk, nr, ns) = match rng.below(4) {
                    0 | 1 => (k, r, size),
                    2 => small_config(rng, rate2),
                    _ => (hostile_count(rng), hostile_count(rng), hostile_size(rng)),
                };
                let what = format!("{}::new({nk},{nr},{ns}, work of the previous object)", api2.name());
                let v = v_config(rate2, nk, nr, ns);
                let placeholder = codec::make_dec(Api::Wrapper, 1, 1, 2, None).expect("placeholder");
                let work = std::mem::replace(&mut dec, placeholder).into_work();
                let handed = work.is_some();
                let res = guarded(|| codec::make_dec(api2, nk, nr, ns, work).map(|d| d as Box<dyn DynDec>));
                judge(out, &what, &v, &res, &trail);
                trail.push(what);
                match res {
                    Ok(Ok(d)) => {
                        dec = d;
                        (api, rate, k, r, size) = (api2, rate2, nk, nr, ns);
                        if handed {
                            out.tag("handover-steps");
                        }
                    }
                    _ => {
                        dec = codec::make_dec(api, k, r, size, None).expect("fresh object");
                        trail.push(format!("new {}({k},{r},{size})", api.name()));
                    }
                }
                got_o.clear();
                got_r.clear();
            }
            0..=6 => {
                let is_rec = rng.chance(1, 2);
                let n = if is_rec { r } else { k };
                let idx = if rng.chance(3, 5) {
                    rng.below(n)
                } else {
                    let b = if rng.chance(1, 2) {
                        base(k, r)
                    } else {
                        // exact base of the other rate layout
                        (if is_rec { k } else { r }).next_power_of_two()
                    };
                    hostile_index(rng, n, b)
                };
                let len = if rng.chance(3, 4) { size } else { hostile_len(rng, size) };
                let shard = rng.bytes(len);
                let mut v = Vec::new();
                if is_rec {
                    if idx >= r {
                        v.push(Error::InvalidRecoveryShardIndex { recovery_count: r, index: idx });
                    } else if got_r.contains(&idx) {
                        v.push(Error::DuplicateRecoveryShardIndex { index: idx });
                    }
                } else if idx >= k {
                    v.push(Error::InvalidOriginalShardIndex { original_count: k, index: idx });
                } else if got_o.contains(&idx) {
                    v.push(Error::DuplicateOriginalShardIndex { index: idx });
                }
                if len != size {
                    v.push(Error::DifferentShardSize { shard_bytes: size, got: len });
                }
                let what = format!(
                    "add_{}_shard(index={idx}, len={len})",
                    if is_rec { "recovery" } else { "original" }
                );
                let res = guarded(|| {
                    if is_rec {
                        dec.add_recovery(idx, &shard)
                    } else {
                        dec.add_original(idx, &shard)
                    }
                });
                judge(out, &what, &v, &res, &trail);
                if let Ok(Ok(())) = res {
                    if is_rec {
                        got_r.insert(idx);
                    } else {
                        got_o.insert(idx);
                    }
                }
                trail.push(what);
            }
            7..=8 => {
                let what = format!("decode() with {}+{} of {k}", got_o.len(), got_r.len());
                let mut v = Vec::new();
                if got_o.len() + got_r.len() < k {
                    v.push(Error::NotEnoughShards {
                        original_count: k,
                        original_received_count: got_o.len(),
                        recovery_received_count: got_r.len(),
                    });
                }
                let probes = [0, k, usize::MAX, usize::MAX - base(k, r) + 1];
                let res = guarded(|| dec.decode_obs(&probes));
                judge(out, &what, &v, &res, &trail);
                if let Ok(Ok(obs)) = &res {
                    if obs.iter.len() != k - got_o.len() || obs.iter.iter().any(|s| s.1.len() != size) {
                        out.violate("C06:decode:wrong-shape", format!("{what}: {} restored", obs.iter.len()));
                    }
                    got_o.clear();
                    got_r.clear();
                }
                trail.push(what);
            }
            _ => {
                let (nk, nr, ns) = if rng.chance(1, 3) {
                    small_config(rng, rate)
                } else {
                    (hostile_count(rng), hostile_count(rng), hostile_size(rng))
                };
                let what = format!("reset({nk},{nr},{ns})");
                let v = v_config(rate, nk, nr, ns);
                let res = guarded(|| dec.reset(nk, nr, ns));
                judge(out, &what, &v, &res, &trail);
                if let Ok(Ok(())) = res {
                    k = nk;
                    r = nr;
                    size = ns;
                    got_o.clear();
                    got_r.clear();
                }
                trail.push(what);
            }
        }
        if out.violations.len() > before {
            break;
        }
    }
    out.tag(format!("api:{}", api.name()));
    out.nontrivial_key(&format!("dec/{}", trail.join(";")));
    out.sample = Some(jobj(&[
        ("kind", jstr("decoder-calls")),
        ("calls", jlist(&trail.iter().take(12).map(|s| jstr(s)).collect::<Vec<_>>())),
    ]));
}

// ======================================================================
// supports / validate / new with hostile scalars

fn static_calls(rng: &mut Rng, out: &mut CaseOut) {
    use reed_solomon_simd::engine::NoSimd;
    use reed_solomon_simd::rate::{
        DefaultRate, DefaultRateDecoder, DefaultRateEncoder, HighRate, HighRateDecoder, HighRateEncoder,
        LowRate, LowRateDecoder, LowRateEncoder, Rate, RateDecoder, RateEncoder,
    };
    use reed_solomon_simd::{ReedSolomonDecoder, ReedSolomonEncoder};
    let k = hostile_count(rng);
    let r = hostile_count(rng);
    let size = hostile_size(rng);
    let rate = gen::rate(rng);
    let trail: Vec<String> = Vec::new();
    // supports: every layer
    let sup = guarded(|| match rate {
        RateKind::High => [
            HighRate::<NoSimd>::supports(k, r),
            HighRateEncoder::<NoSimd>::supports(k, r),
            HighRateDecoder::<NoSimd>::supports(k, r),
        ],
        RateKind::Low => [
            LowRate::<NoSimd>::supports(k, r),
            LowRateEncoder::<NoSimd>::supports(k, r),
            LowRateDecoder::<NoSimd>::supports(k, r),
        ],
        RateKind::Default => [
            DefaultRate::<NoSimd>::supports(k, r)
                && DefaultRateEncoder::<NoSimd>::supports(k, r)
                && DefaultRateDecoder::<NoSimd>::supports(k, r),
            ReedSolomonEncoder::supports(k, r),
            ReedSolomonDecoder::supports(k, r),
        ],
    });
    out.evals += 1;
    let want = gen::rate_ok(rate, k, r);
    match sup {
        Err(p) => out.violate(
            format!("C06:supports:{}", panic_sig(&p)),
            format!("{}::supports({k},{r}) panicked: {p}", rate.name()),
        ),
        Ok(v) => {
            if v.iter().any(|x| *x != want) {
                out.violate(
                    "C06:supports:wrong",
                    format!("{}::supports({k},{r}) = {v:?}, envelope says {want}", rate.name()),
                );
            }
        }
    }
    // validate (allocates nothing, so huge even sizes are fair game here)
    let vsize = if rng.chance(1, 5) { *rng.pick(&[1usize << 32, 1usize << 62, usize::MAX - 1, usize::MAX]) } else { size };
    let v = v_config(rate, k, r, vsize);
    let what = format!("{}::validate({k},{r},{vsize})", rate.name());
    let size_for_ctor = size;
    let size = vsize;
    let res = guarded(|| match rate {
        RateKind::High => HighRate::<NoSimd>::validate(k, r, size)
            .and(HighRateEncoder::<NoSimd>::validate(k, r, size))
            .and(HighRateDecoder::<NoSimd>::validate(k, r, size)),
        RateKind::Low => LowRate::<NoSimd>::validate(k, r, size)
            .and(LowRateEncoder::<NoSimd>::validate(k, r, size))
            .and(LowRateDecoder::<NoSimd>::validate(k, r, size)),
        RateKind::Default => DefaultRate::<NoSimd>::validate(k, r, size)
            .and(DefaultRateEncoder::<NoSimd>::validate(k, r, size))
            .and(DefaultRateDecoder::<NoSimd>::validate(k, r, size)),
    });
    judge(out, &what, &v, &res, &trail);
    // constructors (a successful one allocates: keep valid sizes small)
    let size = size_for_ctor;
    let v = v_config(rate, k, r, size);
    let size2 = if v.is_empty() { size.min(130) } else { size };
    let v2 = v_config(rate, k, r, size2);
    let api = if rate == RateKind::Default && rng.chance(1, 3) {
        Api::Wrapper
    } else {
        Api::Rate(rate, EngineKind::NoSimd)
    };
    let what = format!("new {}({k},{r},{size2})", api.name());
    if rng.chance(1, 2) {
        let res = guarded(|| codec::make_enc(api, k, r, size2, None).map(|_| ()));
        judge(out, &format!("encoder {what}"), &v2, &res, &trail);
    } else {
        let res = guarded(|| codec::make_dec(api, k, r, size2, None).map(|_| ()));
        judge(out, &format!("decoder {what}"), &v2, &res, &trail);
    }
    out.tag(format!("static:{}", rate.name()));
    out.nontrivial_key(&format!("static/{}/{k}/{r}/{size}", rate.name()));
    out.sample = Some(jobj(&[("kind", jstr("static-calls")), ("call", jstr(&what))]));
}
