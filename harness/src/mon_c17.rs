//! C17 - working space is reused in place; rounds and non-growing resets never
//! allocate shard-proportional memory. Monitor: a counting global allocator
//! (alloc.rs) around every step of a history, the history executed at shard
//! sizes S and 8S (scale differential), "need" calibrated from the crate's own
//! fresh constructions, plus result addresses for "in place".

use std::sync::Mutex;

use crate::alloc::{measure, Stats};
use crate::codec::{self, Api, DynDec, DynEnc, EngineKind, RateKind};
use crate::gen::{self, Class};
use crate::util::{guarded, jlist, jobj, jstr, panic_sig, run_cases, Agg, CaseOut, Rng, RunCfg};

pub fn run(cfg: &RunCfg, agg: &Mutex<Agg>) {
    // the lazily built global tables are allocated on first use, whoever
    // touches them first: build them all before anything is measured
    let _ = crate::mon_c16::role(6, 0, false);
    run_cases(agg, cfg, "encoder-alloc", crate::count(cfg, 1500, 30_000), |cs, out| {
        history(cs, out, true);
    });
    run_cases(agg, cfg, "decoder-alloc", crate::count(cfg, 1500, 30_000), |cs, out| {
        history(cs, out, false);
    });
    // objects that hold far more than they need: 128-256 MiB at the larger
    // scale, then a configuration of a few KiB, then back
    run_cases(agg, cfg, "huge-alloc", if cfg.thorough { 12 } else { 2 }, |cs, out| {
        HUGE.with(|h| h.set(true));
        history(cs, out, cs % 2 == 0);
        HUGE.with(|h| h.set(false));
    });
}

thread_local! {
    static HUGE: std::cell::Cell<bool> = const { std::cell::Cell::new(false) };
}

fn plan_huge(rng: &mut Rng) -> Vec<Step> {
    let api = pick_api(rng, true);
    let (k, r) = *rng.pick(&[(8usize, 8usize), (6, 10), (12, 4)]);
    let big = (2usize << 20) + 64 * rng.below(3);
    let mut v = vec![Step::New(api, k, r, big), Step::Round, Step::Reset(k, r, 64), Step::Round];
    if rng.chance(1, 2) {
        v.push(Step::Round);
    }
    if rng.chance(1, 2) {
        v.push(Step::Abandon);
    }
    v.push(Step::Reset(k, r, big));
    v.push(Step::Round);
    if api != Api::Wrapper {
        let api2 = pick_api(rng, false);
        if gen::rate_ok(api_rate(api2), k, r) {
            v.push(Step::Recycle(api2, k, r, 64));
            v.push(Step::Round);
            v.push(Step::Recycle(api2, k, r, big));
            v.push(Step::Round);
        }
    }
    v
}

#[derive(Clone, Debug)]
enum Step {
    New(Api, usize, usize, usize),
    Round,
    Reset(usize, usize, usize),
    Recycle(Api, usize, usize, usize),
    /// a round that is started (some shards added, for a decoder possibly a
    /// decode that fails for lack of shards) and never finished
    Abandon,
}

fn api_rate(api: Api) -> RateKind {
    match api {
        Api::Wrapper => RateKind::Default,
        Api::Rate(r, _) => r,
    }
}

fn pick_api(rng: &mut Rng, allow_wrapper: bool) -> Api {
    if allow_wrapper && rng.chance(1, 6) {
        Api::Wrapper
    } else {
        Api::Rate(gen::rate(rng), *rng.pick(&[EngineKind::NoSimd, EngineKind::Avx2, EngineKind::Default, EngineKind::Ssse3, EngineKind::Naive]))
    }
}

fn small_cfg(rng: &mut Rng, rate: RateKind) -> (usize, usize, usize) {
    let class = match rng.below(10) {
        0..=4 => Class::Tiny,
        5..=7 => Class::Small,
        _ => Class::Edge,
    };
    let (k, r) = gen::config(rng, class, rate);
    let (k, r) = if k.max(r) > 700 { gen::config(rng, Class::Small, rate) } else { (k, r) };
    (k, r, *rng.pick(&[64usize, 66, 100, 128, 130, 192]))
}

fn plan(rng: &mut Rng) -> Vec<Step> {
    let mut api = pick_api(rng, true);
    let (k, r, s) = small_cfg(rng, api_rate(api));
    let mut v = vec![Step::New(api, k, r, s), Step::Round];
    for _ in 0..rng.range(2, if crate::thorough() { 24 } else { 7 }) {
        match rng.below(6) {
            0 | 1 => v.push(Step::Round),
            2 | 3 => {
                let (k, r, s) = small_cfg(rng, api_rate(api));
                // half of the resets and hand-overs find an unfinished round
                if rng.chance(1, 2) {
                    v.push(Step::Abandon);
                }
                v.push(Step::Reset(k, r, s));
                v.push(Step::Round);
            }
            _ => {
                if api == Api::Wrapper {
                    v.push(Step::Round);
                } else {
                    api = pick_api(rng, false);
                    let (k, r, s) = small_cfg(rng, api_rate(api));
                    if rng.chance(1, 2) {
                        v.push(Step::Abandon);
                    }
                    v.push(Step::Recycle(api, k, r, s));
                    v.push(Step::Round);
                }
            }
        }
    }
    v
}

struct StepObs {
    what: String,
    stats: Stats,
    /// allocation profile of a fresh construction of the step's configuration
    fresh: Stats,
    /// the same for a shard size two bytes longer (only when the size is a
    /// multiple of 64, see `history`), and the step's shard size
    probe: Option<Stats>,
    size: usize,
    /// working-space need (filled in by `history` from both scales)
    need: usize,
    /// max need over the configurations this working space held before the step
    held_before: usize,
    /// padded bytes of one shard at this scale
    shard: usize,
    is_round: bool,
    addr: usize,
    same_config_as_prev_round: bool,
}

/// Allocation profile of a fresh construction of this configuration.
fn fresh_profile(api: Api, k: usize, r: usize, size: usize, encoder: bool) -> Stats {
    let (_, st) = measure(|| {
        if encoder {
            drop(codec::make_enc(api, k, r, size, None));
        } else {
            drop(codec::make_dec(api, k, r, size, None));
        }
    });
    st
}

/// Working-space need of a configuration at both scales, calibrated from the
/// crate's own fresh constructions: the allocations whose size differs between
/// the two scales are the shard-proportional ones (the shard buffer); the
/// need at a scale is the largest of them (0 if nothing scales). Constant-size
/// allocations (bitmaps, boxes, rounding slack that is the same at both scales)
/// do not count as working space.
fn needs(p1: &Stats, p8: &Stats) -> (usize, usize) {
    if p1.count != p8.count || p1.count as usize > crate::alloc::SEQ_LEN {
        // different allocation structure at the two scales: fall back to the
        // largest single allocation
        return (p1.largest, p8.largest);
    }
    let mut n = (0usize, 0usize);
    for i in 0..p1.count as usize {
        if p1.seq[i] != p8.seq[i] {
            n.0 = n.0.max(p1.seq[i]);
            n.1 = n.1.max(p8.seq[i]);
        }
    }
    n
}

fn execute(plan: &[Step], scale: usize, data_seed: u64, encoder: bool) -> Result<Vec<StepObs>, String> {
    // shard contents may differ between the two scales, the choices (which
    // shards are received) must not: they come from their own generator
    let mut rng = Rng::new(data_seed ^ scale as u64);
    let mut choice = Rng::new(data_seed);
    let mut enc: Option<Box<dyn DynEnc>> = None;
    let mut dec: Option<Box<dyn DynDec>> = None;
    let mut cur = (Api::Wrapper, 0usize, 0usize, 0usize);
    let mut obs = Vec::new();
    let mut last_round_cfg: Option<(usize, usize, usize)> = None;
    for st in plan {
        match st {
            Step::New(api, k, r, s) => {
                let size = s * scale;
                if encoder {
                    enc = Some(codec::make_enc(*api, *k, *r, size, None).map_err(|e| e.to_string())?);
                } else {
                    dec = Some(codec::make_dec(*api, *k, *r, size, None).map_err(|e| e.to_string())?);
                }
                cur = (*api, *k, *r, size);
                obs.push(StepObs {
                    what: format!("new {}({k},{r},{size})", api.name()),
                    stats: Stats::default(),
                    fresh: fresh_profile(*api, *k, *r, size, encoder),
                    probe: (size % 64 == 0).then(|| fresh_profile(*api, *k, *r, size + 2, encoder)),
                    size,
                    need: 0,
                    held_before: 0,
                    shard: size.div_ceil(64) * 64,
                    is_round: false,
                    addr: 0,
                    same_config_as_prev_round: false,
                });
                last_round_cfg = None;
            }
            Step::Reset(k, r, s) => {
                let size = s * scale;
                let fresh = fresh_profile(cur.0, *k, *r, size, encoder);
                let probe = (size % 64 == 0).then(|| fresh_profile(cur.0, *k, *r, size + 2, encoder));
                let (res, stats) = measure(|| {
                    if encoder {
                        enc.as_mut().unwrap().reset(*k, *r, size)
                    } else {
                        dec.as_mut().unwrap().reset(*k, *r, size)
                    }
                });
                res.map_err(|e| e.to_string())?;
                obs.push(StepObs {
                    what: format!("reset({k},{r},{size})"),
                    stats,
                    fresh,
                    probe,
                    size,
                    need: 0,
                    held_before: 0,
                    shard: size.div_ceil(64) * 64,
                    is_round: false,
                    addr: 0,
                    same_config_as_prev_round: false,
                });
                cur = (cur.0, *k, *r, size);
                last_round_cfg = None;
            }
            Step::Recycle(api, k, r, s) => {
                let size = s * scale;
                let fresh = fresh_profile(*api, *k, *r, size, encoder);
                let probe = (size % 64 == 0).then(|| fresh_profile(*api, *k, *r, size + 2, encoder));
                let (res, stats) = measure(|| -> Result<(), String> {
                    if encoder {
                        let work = enc.take().unwrap().into_work();
                        enc = Some(codec::make_enc(*api, *k, *r, size, work).map_err(|e| e.to_string())?);
                    } else {
                        let work = dec.take().unwrap().into_work();
                        dec = Some(codec::make_dec(*api, *k, *r, size, work).map_err(|e| e.to_string())?);
                    }
                    Ok(())
                });
                res?;
                obs.push(StepObs {
                    what: format!("into_parts -> {}::new({k},{r},{size},Some(work))", api.name()),
                    stats,
                    fresh,
                    probe,
                    size,
                    need: 0,
                    held_before: 0,
                    shard: size.div_ceil(64) * 64,
                    is_round: false,
                    addr: 0,
                    same_config_as_prev_round: false,
                });
                cur = (*api, *k, *r, size);
                last_round_cfg = None;
            }
            Step::Abandon => {
                let (api, k, r, size) = cur;
                let originals = gen::originals(&mut rng, k, size);
                let n_orig = choice.below(k);
                let with_rec = choice.chance(1, 2);
                let try_decode = choice.chance(1, 2);
                let (res, stats) = if encoder {
                    let e = enc.as_mut().unwrap();
                    measure(|| -> Result<(), String> {
                        for o in &originals[..n_orig] {
                            e.add(o).map_err(|e| e.to_string())?;
                        }
                        Ok(())
                    })
                } else {
                    let junk = rng.bytes(size);
                    let d = dec.as_mut().unwrap();
                    measure(|| -> Result<(), String> {
                        for (i, o) in originals.iter().enumerate().take(n_orig.min(k - 1)) {
                            d.add_original(i, o).map_err(|e| e.to_string())?;
                        }
                        if with_rec && n_orig + 1 < k {
                            d.add_recovery(r - 1, &junk).map_err(|e| e.to_string())?;
                        }
                        if try_decode {
                            // fewer than k shards are in: this fails and changes nothing
                            if d.decode_touch().is_ok() {
                                return Err("decode with too few shards succeeded".into());
                            }
                        }
                        Ok(())
                    })
                };
                res?;
                obs.push(StepObs {
                    what: format!("unfinished round on {}({k},{r},{size})", api.name()),
                    stats,
                    fresh: Stats::default(),
                    probe: None,
                    size,
                    need: 0,
                    held_before: 0,
                    shard: size.div_ceil(64) * 64,
                    is_round: true,
                    addr: 0,
                    same_config_as_prev_round: false,
                });
            }
            Step::Round => {
                let (api, k, r, size) = cur;
                let originals = gen::originals(&mut rng, k, size);
                let (res, stats) = if encoder {
                    let e = enc.as_mut().unwrap();
                    measure(|| -> Result<(u64, usize), String> {
                        for o in &originals {
                            e.add(o).map_err(|e| e.to_string())?;
                        }
                        e.encode_touch().map_err(|e| e.to_string())
                    })
                } else {
                    let recovery = codec::encode_fresh(Api::Rate(api_rate(api), EngineKind::NoSimd), k, r, size, &originals)
                        .map_err(|e| e.to_string())?;
                    let (oi, ri, _) = gen::received_set(&mut choice, k, r);
                    let d = dec.as_mut().unwrap();
                    measure(|| -> Result<(u64, usize), String> {
                        for i in &oi {
                            d.add_original(*i, &originals[*i]).map_err(|e| e.to_string())?;
                        }
                        for i in &ri {
                            d.add_recovery(*i, &recovery[*i]).map_err(|e| e.to_string())?;
                        }
                        d.decode_touch().map_err(|e| e.to_string())
                    })
                };
                let (_, addr) = res?;
                let same = last_round_cfg == Some((k, r, size));
                obs.push(StepObs {
                    what: format!("round on {}({k},{r},{size})", api.name()),
                    stats,
                    fresh: Stats::default(),
                    probe: None,
                    size,
                    need: 0,
                    held_before: 0,
                    shard: size.div_ceil(64) * 64,
                    is_round: true,
                    addr,
                    same_config_as_prev_round: same,
                });
                last_round_cfg = Some((k, r, size));
            }
        }
    }
    Ok(obs)
}

fn history(case_seed: u64, out: &mut CaseOut, encoder: bool) {
    let mut rng = Rng::new(case_seed);
    let plan = if HUGE.with(|h| h.get()) { plan_huge(&mut rng) } else { plan(&mut rng) };
    if HUGE.with(|h| h.get()) {
        out.tag("huge-history");
    }
    let data_seed = rng.next_u64();
    let kind = if encoder { "encoder" } else { "decoder" };
    let descr: Vec<String> = plan.iter().map(|s| format!("{s:?}")).collect();
    let r = guarded(|| (execute(&plan, 1, data_seed, encoder), execute(&plan, 8, data_seed, encoder)));
    let (a, b) = match r {
        Err(p) => {
            out.violate(format!("C17:{kind}:{}", panic_sig(&p)), format!("plan {descr:?}: {p}"));
            return;
        }
        Ok((Ok(a), Ok(b))) => (a, b),
        Ok((x, y)) => {
            out.violate(format!("C17:{kind}:step-failed"), format!("plan {descr:?}: {:?} {:?}", x.err(), y.err()));
            return;
        }
    };
    // calibrate need / held from the fresh-construction profiles at both scales
    let (mut a, mut b) = (a, b);
    let mut held = (0usize, 0usize);
    for (s1, s8) in a.iter_mut().zip(b.iter_mut()) {
        if s1.is_round {
            continue;
        }
        let (n1, n8) = needs(&s1.fresh, &s8.fresh);
        // A shard of S bytes occupies ceil(S / 64) blocks - that part of the
        // need is defined outside the crate. When S is a multiple of 64 the
        // number of positions is taken from a fresh construction for S + 2
        // bytes (one block more per shard, no ambiguity about the tail) and
        // the need is positions x ceil(S / 64) blocks, if that is smaller than
        // what the crate's own construction for S allocates. (An estimate of
        // positions that is too high only makes fewer steps count as
        // non-growing.)
        let est = |fresh_need: usize, probe_need: usize, size: usize| -> usize {
            let probe_blocks = (size + 2).div_ceil(64);
            if probe_need == 0 {
                return fresh_need;
            }
            let positions = probe_need.div_ceil(probe_blocks * 64);
            fresh_need.min(positions * size.div_ceil(64) * 64)
        };
        let (m1, m8) = match (&s1.probe, &s8.probe) {
            (Some(p1), Some(p8)) => {
                let (a1, a8) = needs(p1, p8);
                (est(n1, a1, s1.size), est(n8, a8, s8.size))
            }
            _ => (n1, n8),
        };
        s1.need = m1;
        s8.need = m8;
        s1.held_before = held.0;
        s8.held_before = held.1;
        // what the object holds is what was really allocated for it
        held = (held.0.max(n1), held.1.max(n8));
    }
    let mut prev_addr: [usize; 2] = [0, 0];
    let mut nongrowing = 0;
    let mut rounds = 0;
    for (s1, s8) in a.iter().zip(&b) {
        if s1.what.starts_with("new ") {
            prev_addr = [0, 0];
            continue;
        }
        out.evals += 1;
        let delta = s8.stats.bytes.saturating_sub(s1.stats.bytes);
        let no_growth = !s1.is_round && s1.need <= s1.held_before && s8.need <= s8.held_before;
        let class = if s1.is_round { "rounds" } else if no_growth { "non-growing steps" } else { "growing steps" };
        out.add(format!("bytes allocated in {class} at S"), s1.stats.bytes);
        out.add(format!("bytes allocated in {class} at 8S"), s8.stats.bytes);
        out.add(format!("allocation calls in {class}"), s1.stats.count + s8.stats.count);
        if s1.is_round {
            rounds += 1;
            if delta >= s1.shard as u64 {
                out.violate(
                    format!("C17:{kind}:round-allocates"),
                    format!("{}: allocated {} bytes at shard size S and {} at 8S (a shard is {} / {} bytes): the allocation grows with the shard size; plan {descr:?}", s1.what, s1.stats.bytes, s8.stats.bytes, s1.shard, s8.shard),
                );
                return;
            }
            for (slot, s) in [(0, s1), (1, s8)] {
                if s.same_config_as_prev_round && s.addr != 0 && prev_addr[slot] != 0 && s.addr != prev_addr[slot] {
                    out.violate(
                        format!("C17:{kind}:not-in-place"),
                        format!("{}: result lives at {:#x}, previous round of the same configuration at {:#x}; plan {descr:?}", s.what, s.addr, prev_addr[slot]),
                    );
                    return;
                }
                if s.addr != 0 {
                    prev_addr[slot] = s.addr;
                }
            }
            out.tag(if s1.what.starts_with("unfinished") { format!("{kind}:unfinished-round") } else { format!("{kind}:round") });
        } else {
            // reset / hand-over: judged only when the configuration needs no
            // more working space than is already held (at both scales)
            if no_growth {
                nongrowing += 1;
                // shard-proportional: grows with the shard size, or allocates
                // the whole (scaling) working space again
                let whole_again = |s: &StepObs| s.need >= 1024 && s.stats.largest >= s.need;
                if delta >= s1.shard as u64 || whole_again(s1) || whole_again(s8) {
                    out.violate(
                        format!("C17:{kind}:non-growing-step-allocates"),
                        format!("{}: needs {} / {} bytes of working space at S / 8S, {} / {} already held, yet it allocated {} bytes at S and {} at 8S (largest single allocation {} / {}); plan {descr:?}", s1.what, s1.need, s8.need, s1.held_before, s8.held_before, s1.stats.bytes, s8.stats.bytes, s1.stats.largest, s8.stats.largest),
                    );
                    return;
                }
                out.tag(format!("{kind}:non-growing-step"));
            } else {
                out.tag(format!("{kind}:growing-step"));
            }
            prev_addr = [0, 0];
        }
    }
    if nongrowing > 0 && rounds > 1 {
        out.nontrivial_key(&format!("{kind}/{descr:?}"));
    }
    out.sample = Some(jobj(&[
        ("kind", jstr(kind)),
        ("plan", jlist(&descr.iter().map(|s| jstr(s)).collect::<Vec<_>>())),
        (
            "bytes_allocated_per_step_S_and_8S",
            jlist(&a.iter().zip(&b).map(|(x, y)| jstr(&format!("{}: {} / {}", x.what, x.stats.bytes, y.stats.bytes))).collect::<Vec<_>>()),
        ),
    ]));
}
