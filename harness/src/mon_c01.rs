//! C01 - any original_count of the shards restore every missing original.
//! Oracle: the originals the harness generated (ground truth by construction).

use std::collections::HashMap;
use std::sync::Mutex;

use crate::codec::{self, Api, RateKind};
use crate::gen::{self, Class};
use crate::hooks::Poison;
use crate::util::{hex, jobj, jstr, run_cases, run_indexed, Agg, CaseOut, Rng, RunCfg};

pub fn run(cfg: &RunCfg, agg: &Mutex<Agg>) {
    run_cases(agg, cfg, "bulk", crate::count(cfg, 6000, 150_000), |cs, out| {
        let mut rng = Rng::new(cs);
        let class = gen::class_mix(&mut rng, false);
        one_case(&mut rng, class, out);
    });
    // tiny configurations: EVERY subset with at least k members (finite space)
    let n: u64 = if cfg.thorough { 7 } else { 4 };
    run_indexed(agg, cfg, "tiny-all-subsets", n * n * 3, |i, out| {
        let k = (i / 3 / n) as usize + 1;
        let r = (i / 3 % n) as usize + 1;
        let rate = RateKind::ALL[(i % 3) as usize];
        all_subsets_case(&mut Rng::new(i ^ cfg.seed), k, r, rate, out);
    });
    // large configurations, envelope corners and extremes
    run_cases(agg, cfg, "large", crate::count(cfg, 150, 4000), |cs, out| {
        let mut rng = Rng::new(cs);
        let class = if rng.chance(1, 2) {
            Class::Corner
        } else {
            Class::Large
        };
        one_case(&mut rng, class, out);
    });
    // working sets of 64-200 MiB: few very long shards, thousands of long
    // shards, the whole field with kilobyte shards
    run_cases(agg, cfg, "huge", if cfg.thorough { 24 } else { 4 }, |cs, out| {
        let mut rng = Rng::new(cs);
        let (k, r, size) = *rng.pick(&[
            (2usize, 2usize, 32usize << 20),
            (3, 1, (16 << 20) + 64),
            (1, 3, (20 << 20) + 2),
            (5, 3, (8 << 20) + 66),
            (1000, 600, 64 << 10),
            (600, 1000, (48 << 10) + 2),
            (2000, 48, 40 << 10),
            (32768, 32768, 1026),
            (57000, 8000, 1100),
            (8000, 57000, 1100),
            // few originals, a lot of recovery data (and the reverse)
            (3, 36, 640_000),
            (36, 3, 640_000),
            (5, 300, 100_002),
            (100, 400, 64_000),
            (400, 100, 64_000),
            (3, 60_000, 320),
            (60_000, 3, 320),
        ]);
        let size = size + 2 * rng.below(40);
        assert!(gen::envelope(k, r), "harness: huge shape outside the documented envelope");
        HUGE.with(|h| h.set(Some((k, r, size))));
        one_case(&mut rng, Class::Large, out);
        HUGE.with(|h| h.set(None));
        out.tag("working-set>=64MiB");
    });
}

thread_local! {
    /// configuration override for the `huge` stage
    static HUGE: std::cell::Cell<Option<(usize, usize, usize)>> = const { std::cell::Cell::new(None) };
}

/// expected restored list: exactly the originals not given, ascending
pub fn expected(originals: &[Vec<u8>], given: &[usize]) -> Vec<(usize, Vec<u8>)> {
    let mut is_given = vec![false; originals.len()];
    for i in given {
        is_given[*i] = true;
    }
    (0..originals.len())
        .filter(|i| !is_given[*i])
        .map(|i| (i, originals[i].clone()))
        .collect()
}

pub fn first_diff(got: &[(usize, Vec<u8>)], want: &[(usize, Vec<u8>)]) -> String {
    if got.len() != want.len() {
        return format!(
            "restored {} shards, expected {} (got idx {:?}.., want idx {:?}..)",
            got.len(),
            want.len(),
            got.iter().map(|x| x.0).take(8).collect::<Vec<_>>(),
            want.iter().map(|x| x.0).take(8).collect::<Vec<_>>()
        );
    }
    for (g, w) in got.iter().zip(want) {
        if g.0 != w.0 {
            return format!("restored index {} where {} expected", g.0, w.0);
        }
        if g.1 != w.1 {
            let pos = g.1.iter().zip(&w.1).position(|(a, b)| a != b);
            return format!(
                "restored original {} differs (len {} vs {}, first diff at byte {:?}): got {} want {}",
                g.0,
                g.1.len(),
                w.1.len(),
                pos,
                hex(&g.1),
                hex(&w.1)
            );
        }
    }
    "equal".into()
}

fn all_subsets_case(rng: &mut Rng, k: usize, r: usize, rate: RateKind, out: &mut CaseOut) {
    if !gen::rate_ok(rate, k, r) {
        return;
    }
    for size in [2usize, 66] {
        let eng = *rng.pick(&codec::EngineKind::all());
        let api = Api::Rate(rate, eng);
        let originals = gen::originals(rng, k, size);
        let desc = format!("k={k} r={r} rate={} size={size} api={}", rate.name(), api.name());
        let recovery = match codec::encode_fresh(api, k, r, size, &originals) {
            Ok(v) => v,
            Err(e) => {
                out.violate(format!("C01:encode-err:{}", codec::err_name(&e)), format!("{desc}: {e}"));
                return;
            }
        };
        let total = k + r;
        // one decoder object serves all subsets (implicit reset between rounds)
        let mut dec = match codec::make_dec(api, k, r, size, None) {
            Ok(d) => d,
            Err(e) => {
                out.violate(format!("C01:decode-err:{}", codec::err_name(&e)), format!("{desc}: {e}"));
                return;
            }
        };
        for mask in 0u32..1 << total {
            if (mask.count_ones() as usize) < k {
                continue;
            }
            let oi: Vec<usize> = (0..k).filter(|i| mask >> i & 1 != 0).collect();
            let ri: Vec<usize> = (0..r).filter(|j| mask >> (k + j) & 1 != 0).collect();
            let order = gen::add_order(rng, &oi, &ri, mask % 3 == 0);
            out.evals += 1;
            match codec::decode_round(dec.as_mut(), &order, &originals, &recovery, &[]) {
                Err(e) => {
                    out.violate(
                        format!("C01:decode-err:{}", codec::err_name(&e)),
                        format!("{desc}: subset originals {oi:?} recovery {ri:?}: {e}"),
                    );
                    return;
                }
                Ok(obs) => {
                    let want = expected(&originals, &oi);
                    if obs.iter != want {
                        out.violate(
                            "C01:restore-mismatch",
                            format!("{desc}: subset originals {oi:?} recovery {ri:?}: {}", first_diff(&obs.iter, &want)),
                        );
                        return;
                    }
                    if !want.is_empty() {
                        out.nontrivial_key(&format!("all/{k}/{r}/{}/{size}/{mask}", rate.name()));
                    }
                }
            }
        }
        out.tag("tiny-config-all-subsets-enumerated");
    }
    out.sample = Some(jobj(&[("all_subsets_of", jstr(&format!("k={k} r={r} rate={}", rate.name())))]));
}

/// A decoder for (k, r, size) that has a past: it was constructed for another
/// configuration (often a larger one), maybe received a few shards of an
/// abandoned round, and then got here by reset or by handing its working space
/// to a new decoder.
pub fn preused_decoder(
    rng: &mut Rng,
    api: Api,
    rate: RateKind,
    k: usize,
    r: usize,
    size: usize,
) -> Result<Box<dyn codec::DynDec + Send>, reed_solomon_simd::Error> {
    let class = *rng.pick(&[Class::Tiny, Class::Small, Class::Edge, Class::Medium]);
    let (mut k0, mut r0) = gen::config(rng, class, rate);
    let mut size0 = *rng.pick(&[2usize, 64, 66, 100, 130]);
    let mut api0 = api;
    // sometimes the previous life had the very same (k, r, size) - with the
    // other rate's layout where the API allows to hand working space over
    if rng.chance(1, 6) {
        // the same payload in another shape (equal working-space size, other geometry)
        if let Some(c) = gen::reshape(rng, rate, k, r, size) {
            (k0, r0, size0) = c;
        }
    } else if rng.chance(1, 5) {
        (k0, r0, size0) = (k, r, size);
        if let Api::Rate(rk, eng) = api {
            let other = match rk {
                RateKind::High => Some(RateKind::Low),
                RateKind::Low => Some(RateKind::High),
                RateKind::Default => None,
            };
            if let Some(o) = other {
                if gen::rate_ok(o, k, r) {
                    api0 = Api::Rate(o, eng);
                }
            }
        }
    }
    let mut dec = codec::make_dec(api0, k0, r0, size0, None)?;
    if rng.chance(1, 2) {
        for i in 0..rng.below(k0.min(4) + 1) {
            let junk = rng.bytes(size0);
            dec.add_original(i, &junk)?;
        }
        if rng.chance(1, 2) {
            let junk = rng.bytes(size0);
            dec.add_recovery(r0 - 1, &junk)?;
        }
    }
    match api {
        Api::Rate(..) if api0 != api || rng.chance(1, 2) => {
            let work = dec.into_work();
            codec::make_dec(api, k, r, size, work)
        }
        _ => {
            dec.reset(k, r, size)?;
            Ok(dec)
        }
    }
}

/// An encoder for (k, r, size) that has a past, like `preused_decoder`.
pub fn preused_encoder(
    rng: &mut Rng,
    api: Api,
    rate: RateKind,
    k: usize,
    r: usize,
    size: usize,
) -> Result<Box<dyn codec::DynEnc + Send>, reed_solomon_simd::Error> {
    let class = *rng.pick(&[Class::Tiny, Class::Small, Class::Edge, Class::Medium]);
    let (mut k0, mut r0) = gen::config(rng, class, rate);
    let mut size0 = *rng.pick(&[2usize, 64, 66, 100, 130]);
    let mut api0 = api;
    if rng.chance(1, 6) {
        if let Some(c) = gen::reshape(rng, rate, k, r, size) {
            (k0, r0, size0) = c;
        }
    } else if rng.chance(1, 5) {
        (k0, r0, size0) = (k, r, size);
        if let Api::Rate(rk, eng) = api {
            let other = match rk {
                RateKind::High => Some(RateKind::Low),
                RateKind::Low => Some(RateKind::High),
                RateKind::Default => None,
            };
            if let Some(o) = other {
                if gen::rate_ok(o, k, r) {
                    api0 = Api::Rate(o, eng);
                }
            }
        }
    }
    let mut enc = codec::make_enc(api0, k0, r0, size0, None)?;
    match rng.below(3) {
        0 => {}
        1 => {
            // an abandoned round
            for _ in 0..rng.below(k0.min(4) + 1) {
                let junk = rng.bytes(size0);
                enc.add(&junk)?;
            }
        }
        _ => {
            // a finished round (small configurations only)
            if k0 <= 64 {
                for _ in 0..k0 {
                    let junk = rng.bytes(size0);
                    enc.add(&junk)?;
                }
                enc.encode_touch()?;
            }
        }
    }
    match api {
        Api::Rate(..) if api0 != api || rng.chance(1, 2) => {
            let work = enc.into_work();
            codec::make_enc(api, k, r, size, work)
        }
        _ => {
            enc.reset(k, r, size)?;
            Ok(enc)
        }
    }
}

fn one_case(rng: &mut Rng, class: Class, out: &mut CaseOut) {
    let mut rate = gen::rate(rng);
    let (mut k, mut r) = gen::config(rng, class, rate);
    let mut size = gen::shard_size(rng, k, r);
    let huge = HUGE.with(|h| h.get());
    if let Some(h) = huge {
        (k, r, size) = h;
        if !gen::rate_ok(rate, k, r) {
            rate = RateKind::Default;
        }
    }
    let enc_api = gen::api(rng, rate, k, r);
    let poison = rng.chance(1, 2);
    let _p = Poison::new(poison, rng.next_u64());
    let originals = gen::originals_for(rng, rate, k, r, size);
    let desc = format!(
        "k={k} r={r} rate={} size={size} enc={} poison={poison}",
        rate.name(),
        enc_api.name()
    );

    // the encoder: fresh, or (a third of the cases) one with a past
    let enc_preused = huge.is_none() && rng.chance(1, 3);
    let encoded = if enc_preused {
        preused_encoder(rng, enc_api, rate, k, r, size).and_then(|mut e| {
            for o in &originals {
                e.add(o)?;
            }
            e.encode_obs(&[]).map(|o| o.iter)
        })
    } else {
        codec::encode_fresh(enc_api, k, r, size, &originals)
    };
    out.tag(if enc_preused { "encoder:pre-used" } else { "encoder:fresh" });
    let recovery = match encoded {
        Ok(v) => v,
        Err(e) => {
            out.violate(
                format!("C01:encode-err:{}", codec::err_name(&e)),
                format!("{desc}: encode of a supported configuration failed: {e}"),
            );
            return;
        }
    };
    if recovery.len() != r || recovery.iter().any(|s| s.len() != size) {
        out.violate(
            "C01:recovery-shape",
            format!("{desc}: {} recovery shards / wrong length", recovery.len()),
        );
        return;
    }
    out.tag(format!("rate:{}", rate.name()));
    out.tag(format!("class:{}", class.name()));
    out.tag(format!("size:{}", gen::size_class(size)));
    out.tag(format!("enc:{}", enc_api.name()));

    let rounds = if k.max(r) > 4096 || huge.is_some() { 1 } else { 3 };
    for t in 0..rounds {
        let (orig_idx, rec_idx, shape) = gen::received_set(rng, k, r);
        let dec_api = gen::api(rng, rate, k, r);
        let shuffled = rng.chance(1, 2);
        let order = gen::add_order(rng, &orig_idx, &rec_idx, shuffled);
        let want = expected(&originals, &orig_idx);
        let d = format!(
            "{desc} dec={} given_orig={} given_rec={} shape={shape} round={t}",
            dec_api.name(),
            orig_idx.len(),
            rec_idx.len()
        );
        out.evals += 1;
        // streaming
        // "a decoder of the same configuration": fresh, or one that reached
        // this configuration by reset / taking over another decoder's working space
        let preused = rng.chance(1, 2);
        let got = if preused {
            preused_decoder(rng, dec_api, rate, k, r, size)
        } else {
            codec::make_dec(dec_api, k, r, size, None)
        }
        .and_then(|mut dec| codec::decode_round(dec.as_mut(), &order, &originals, &recovery, &[]));
        out.tag(if preused { "decoder:pre-used" } else { "decoder:fresh" });
        match got {
            Err(e) => out.violate(
                format!("C01:decode-err:{}", codec::err_name(&e)),
                format!("{d}: decode with >= k shards failed: {e}"),
            ),
            Ok(obs) => {
                if obs.iter != want {
                    out.violate(
                        "C01:restore-mismatch",
                        format!("{d}: {}", first_diff(&obs.iter, &want)),
                    );
                }
            }
        }
        out.tag(format!("dec:{}", dec_api.name()));
        out.tag(format!("shape:{shape}"));
        if !want.is_empty() {
            out.nontrivial_key(&format!(
                "{k}/{r}/{}/{}/{size}/{:?}/{:?}",
                rate.name(),
                dec_api.name(),
                orig_idx,
                rec_idx
            ));
            out.tag("nontrivial-decodes");
        }
        // one-shot functions (default rate only)
        if rate == RateKind::Default && t == 0 {
            out.evals += 1;
            let o: Vec<(usize, &Vec<u8>)> = orig_idx.iter().map(|i| (*i, &originals[*i])).collect();
            let rr: Vec<(usize, &Vec<u8>)> = rec_idx.iter().map(|i| (*i, &recovery[*i])).collect();
            let enc1 = reed_solomon_simd::encode(k, r, &originals);
            match enc1 {
                Ok(v) if v == recovery => {}
                Ok(_) => out.violate(
                    "C01:oneshot-encode-differs",
                    format!("{d}: one-shot encode differs from {}", enc_api.name()),
                ),
                Err(e) => out.violate(
                    format!("C01:oneshot-encode-err:{}", codec::err_name(&e)),
                    format!("{d}: {e}"),
                ),
            }
            match reed_solomon_simd::decode(k, r, o, rr) {
                Err(e) => out.violate(
                    format!("C01:oneshot-decode-err:{}", codec::err_name(&e)),
                    format!("{d}: {e}"),
                ),
                Ok(map) => {
                    let wantmap: HashMap<usize, Vec<u8>> = want.iter().cloned().collect();
                    if map != wantmap {
                        out.violate(
                            "C01:oneshot-restore-mismatch",
                            format!("{d}: one-shot decode returned {} entries, expected {}", map.len(), wantmap.len()),
                        );
                    }
                }
            }
            out.tag("oneshot");
        }
    }
    out.sample = Some(jobj(&[
        ("config", jstr(&desc)),
        ("original0", jstr(&hex(&originals[0][..originals[0].len().min(256)]))),
        ("recovery0", jstr(&hex(&recovery[0][..recovery[0].len().min(256)]))),
    ]));
}
