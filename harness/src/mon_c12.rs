//! C12 - result accessors expose exactly the produced shards; dropping the
//! result starts a new round. Oracle: the accessor model of the property
//! text + bytes from the ground truth / a fresh encoder.

use std::sync::Mutex;

use crate::codec::{self, Api, EngineKind};
use crate::gen::{self, Class};
use crate::mon_c01::expected;
use crate::util::{guarded, jobj, jstr, panic_sig, run_cases, Agg, CaseOut, Rng, RunCfg};

pub fn run(cfg: &RunCfg, agg: &Mutex<Agg>) {
    run_cases(agg, cfg, "encoder-accessors", crate::count(cfg, 5000, 120_000), |cs, out| {
        enc_case(&mut Rng::new(cs), out);
    });
    run_cases(agg, cfg, "decoder-accessors", crate::count(cfg, 5000, 120_000), |cs, out| {
        dec_case(&mut Rng::new(cs), out);
    });
}

fn cfg_for(rng: &mut Rng, rate: codec::RateKind) -> (usize, usize, usize) {
    let class = match rng.below(20) {
        0..=8 => Class::Tiny,
        9..=14 => Class::Small,
        15..=17 => Class::Edge,
        18 => Class::Medium,
        _ => Class::Large,
    };
    let (k, r) = gen::config(rng, class, rate);
    let size = if k.max(r) > 1000 { 2 } else { *rng.pick(&[2usize, 30, 62, 64, 66, 100, 130]) };
    (k, r, size)
}

fn probe_indexes(rng: &mut Rng, n: usize, other: usize) -> Vec<usize> {
    // `other` is the count of the other shard kind: working-space bases are
    // next_power_of_two of one of the counts
    let b1 = n.next_power_of_two();
    let b2 = other.next_power_of_two();
    let mut v = vec![
        0,
        n - 1,
        n,
        n + 1,
        65535,
        65536,
        1usize << 32,
        1usize << 63,
        usize::MAX,
        usize::MAX - 1,
        usize::MAX - b1 + 1,
        usize::MAX - b2 + 1,
        (usize::MAX - b2 + 1).wrapping_add(rng.below(n)),
    ];
    for _ in 0..4 {
        v.push(rng.below(n));
    }
    v
}

fn enc_case(rng: &mut Rng, out: &mut CaseOut) {
    let rate = gen::rate(rng);
    let (k, r, size) = cfg_for(rng, rate);
    let api = gen::api(rng, rate, k, r);
    let rounds = if k.max(r) > 1000 { 2 } else { *rng.pick(if crate::thorough() { &[1usize, 2, 3, 10, 50, 200][..] } else { &[1usize, 2, 3, 10, 50][..] }) };
    let desc = format!("k={k} r={r} rate={} size={size} api={} rounds={rounds}", rate.name(), api.name());
    let res = guarded(|| {
        // fresh, or (a third of the cases) an object with a past
        let preused = rng.chance(1, 3);
        out.tag(if preused { "encoder:pre-used" } else { "encoder:fresh" });
        let made = if preused { crate::mon_c01::preused_encoder(rng, api, rate, k, r, size) } else { codec::make_enc(api, k, r, size, None) };
        let mut enc = match made {
            Ok(e) => e,
            Err(e) => {
                out.violate("C12:new-failed", format!("{desc}: {e}"));
                return;
            }
        };
        for round in 0..rounds {
            // now and then a round whose result is dropped by *unwinding*: user
            // code panics while it holds the result, the panic is caught further
            // up and the encoder, which lives outside, is used again
            if round > 0 && rng.chance(1, 6) {
                for _ in 0..k {
                    let junk = rng.bytes(size);
                    if let Err(e) = enc.add(&junk) {
                        out.violate("C12:encoder-round-not-accepted-after-drop", format!("{desc}: round {round}: add failed with {e:?}"));
                        return;
                    }
                }
                match guarded(|| enc.encode_then_unwind()) {
                    Err(p) if p.contains(codec::USER_PANIC) => out.tag("result-dropped-by-unwinding"),
                    Err(p) => {
                        out.violate(format!("C12:encoder:{}", panic_sig(&p)), format!("{desc}: {p}"));
                        return;
                    }
                    Ok(r) => {
                        out.violate("C12:encode-failed", format!("{desc}: round {round}: {:?}", r.err()));
                        return;
                    }
                }
            }
            let originals = gen::originals(rng, k, size);
            for o in &originals {
                if let Err(e) = enc.add(o) {
                    out.violate(
                        "C12:encoder-round-not-accepted-after-drop",
                        format!("{desc}: round {round}: add failed with {e:?} (dropping the result must start a new round)"),
                    );
                    return;
                }
            }
            let probes = probe_indexes(rng, r, k);
            let obs = match enc.encode_obs(&probes) {
                Ok(o) => o,
                Err(e) => {
                    out.violate("C12:encode-failed", format!("{desc}: round {round}: {e:?}"));
                    return;
                }
            };
            out.evals += 1;
            if obs.iter.len() != r {
                out.violate("C12:recovery-iter-count", format!("{desc}: iterator yielded {} shards", obs.iter.len()));
                return;
            }
            if obs.nones_after_end != 3 {
                out.violate("C12:recovery-iter-not-fused", format!("{desc}: iterator yielded Some after None"));
            }
            if let Some(p) = obs.protocol.first() {
                out.violate("C12:recovery-iter-protocol", format!("{desc}: round {round}: {p} ({} disagreements)", obs.protocol.len()));
                return;
            }
            for (p, got) in probes.iter().zip(&obs.probes) {
                let want = if *p < r { Some(&obs.iter[*p]) } else { None };
                if got.as_ref() != want {
                    out.violate(
                        "C12:recovery-accessor",
                        format!("{desc}: recovery({p}) is {:?}, expected {:?}", got.as_ref().map(Vec::len), want.map(Vec::len)),
                    );
                    return;
                }
                if let Some(s) = got {
                    if s.len() != size {
                        out.violate("C12:recovery-length", format!("{desc}: recovery({p}) has {} bytes", s.len()));
                    }
                }
            }
            // bytes: same as a fresh encoder (first and last round only)
            if round == 0 || round + 1 == rounds {
                match codec::encode_fresh(Api::Rate(rate, EngineKind::NoSimd), k, r, size, &originals) {
                    Ok(f) if f == obs.iter => {}
                    _ => {
                        out.violate("C12:recovery-bytes", format!("{desc}: round {round}: iterator bytes differ from a fresh encoder"));
                        return;
                    }
                }
            }
        }
    });
    if let Err(p) = res {
        out.violate(format!("C12:encoder:{}", panic_sig(&p)), format!("{desc}: {p}"));
    }
    out.tag(format!("enc-rounds:{rounds}"));
    out.tag(format!("api:{}", api.name()));
    out.nontrivial_key(&format!("enc/{desc}/{}", rng.next_u64()));
    out.sample = Some(jobj(&[("config", jstr(&desc))]));
}

fn dec_case(rng: &mut Rng, out: &mut CaseOut) {
    let rate = gen::rate(rng);
    let (k, r, size) = cfg_for(rng, rate);
    let api = gen::api(rng, rate, k, r);
    let rounds = if k.max(r) > 1000 { 2 } else { *rng.pick(if crate::thorough() { &[1usize, 2, 3, 10, 30, 100][..] } else { &[1usize, 2, 3, 10, 30][..] }) };
    let desc = format!("k={k} r={r} rate={} size={size} api={} rounds={rounds}", rate.name(), api.name());
    let res = guarded(|| {
        let preused = rng.chance(1, 3);
        out.tag(if preused { "decoder:pre-used" } else { "decoder:fresh" });
        let made = if preused { crate::mon_c01::preused_decoder(rng, api, rate, k, r, size) } else { codec::make_dec(api, k, r, size, None) };
        let mut dec = match made {
            Ok(e) => e,
            Err(e) => {
                out.violate("C12:new-failed", format!("{desc}: {e}"));
                return;
            }
        };
        for round in 0..rounds {
            let originals = gen::originals(rng, k, size);
            let recovery = codec::encode_fresh(Api::Rate(rate, EngineKind::NoSimd), k, r, size, &originals)
                .expect("reference encode");
            if round > 0 && rng.chance(1, 6) {
                // a round whose result is dropped by unwinding (see enc_case)
                let (oi, ri, _) = gen::received_set(rng, k, r);
                for i in &oi {
                    if let Err(e) = dec.add_original(*i, &originals[*i]) {
                        out.violate("C12:decoder-round-failed", format!("{desc}: round {round}: {e:?} (dropping the result must start a new round)"));
                        return;
                    }
                }
                for i in &ri {
                    if let Err(e) = dec.add_recovery(*i, &recovery[*i]) {
                        out.violate("C12:decoder-round-failed", format!("{desc}: round {round}: {e:?} (dropping the result must start a new round)"));
                        return;
                    }
                }
                match guarded(|| dec.decode_then_unwind()) {
                    Err(p) if p.contains(codec::USER_PANIC) => out.tag("result-dropped-by-unwinding"),
                    Err(p) => {
                        out.violate(format!("C12:decoder:{}", panic_sig(&p)), format!("{desc}: {p}"));
                        return;
                    }
                    Ok(r) => {
                        out.violate("C12:decoder-round-failed", format!("{desc}: round {round}: {:?}", r.err()));
                        return;
                    }
                }
            }
            let (oi, ri, shape) = gen::received_set(rng, k, r);
            let order = gen::add_order(rng, &oi, &ri, true);
            let probes = probe_indexes(rng, k, r);
            let obs = match codec::decode_round(dec.as_mut(), &order, &originals, &recovery, &probes) {
                Ok(o) => o,
                Err(e) => {
                    out.violate(
                        "C12:decoder-round-failed",
                        format!("{desc}: round {round} ({shape}): {e:?} (dropping the result must start a new round)"),
                    );
                    return;
                }
            };
            out.evals += 1;
            let want = expected(&originals, &oi);
            if obs.iter != want {
                let idx: Vec<usize> = obs.iter.iter().map(|x| x.0).collect();
                let sorted = idx.windows(2).all(|w| w[0] < w[1]);
                out.violate(
                    if !sorted { "C12:restored-iter-order" } else if oi.len() == k { "C12:restored-iter-nonempty-when-complete" } else { "C12:restored-iter-content" },
                    format!("{desc}: round {round} ({shape}, given {}+{}): iterator yielded indexes {:?}.., expected {:?}..", oi.len(), ri.len(), &idx[..idx.len().min(8)], want.iter().map(|x| x.0).take(8).collect::<Vec<_>>()),
                );
                return;
            }
            if obs.nones_after_end != 3 {
                out.violate("C12:restored-iter-not-fused", format!("{desc}: iterator yielded Some after None"));
            }
            if let Some(p) = obs.protocol.first() {
                out.violate("C12:restored-iter-protocol", format!("{desc}: round {round}: {p} ({} disagreements)", obs.protocol.len()));
                return;
            }
            for (p, got) in probes.iter().zip(&obs.probes) {
                let want = if *p < k && !oi.contains(p) { Some(&originals[*p]) } else { None };
                if got.as_ref() != want {
                    out.violate(
                        if oi.len() == k { "C12:restored-accessor-when-complete" } else { "C12:restored-accessor" },
                        format!("{desc}: round {round}: restored_original({p}) is {:?}, expected {:?}", got.as_ref().map(Vec::len), want.map(Vec::len)),
                    );
                    return;
                }
            }
            if oi.len() == k {
                out.tag("complete-originals");
            }
        }
    });
    if let Err(p) = res {
        out.violate(format!("C12:decoder:{}", panic_sig(&p)), format!("{desc}: {p}"));
    }
    out.tag(format!("dec-rounds:{rounds}"));
    out.tag(format!("api:{}", api.name()));
    out.nontrivial_key(&format!("dec/{desc}/{}", rng.next_u64()));
    out.sample = Some(jobj(&[("config", jstr(&desc))]));
}
