//! Seeded generators and the independently written models of the envelope
//! and of the rate-selection rule.

use crate::codec::{Api, EngineKind, RateKind};
use crate::util::Rng;

// ======================================================================
// Models (written from README / property text, not from the code)

/// README envelope: both >= 1 and for some n one count <= 2^n while the other
/// is <= 65536 - 2^n.
pub fn envelope(k: usize, r: usize) -> bool {
    k >= 1 && r >= 1 && (high_ok(k, r) || low_ok(k, r))
}

/// part of the envelope where recovery_count is the power-of-two-bounded side
pub fn high_ok(k: usize, r: usize) -> bool {
    k >= 1
        && r >= 1
        && (0..=16u32).any(|n| {
            let p = 1usize << n;
            r <= p && k <= 65536 - p
        })
}

/// part of the envelope where original_count is the power-of-two-bounded side
pub fn low_ok(k: usize, r: usize) -> bool {
    k >= 1
        && r >= 1
        && (0..=16u32).any(|n| {
            let p = 1usize << n;
            k <= p && r <= 65536 - p
        })
}

pub fn rate_ok(rate: RateKind, k: usize, r: usize) -> bool {
    match rate {
        RateKind::High => high_ok(k, r),
        RateKind::Low => low_ok(k, r),
        RateKind::Default => envelope(k, r),
    }
}

fn p2(x: usize) -> usize {
    let mut p = 1usize;
    while p < x {
        p <<= 1;
    }
    p
}

/// selection rule of the default codec: true = high rate
pub fn rule_high(k: usize, r: usize) -> bool {
    p2(k) > p2(r) || (p2(k) == p2(r) && k <= r)
}

/// the staircase corners (k maximal for r = 2^n and symmetric)
pub fn corners() -> Vec<(usize, usize)> {
    let mut v = Vec::new();
    for n in 0..=15u32 {
        let p = 1usize << n;
        v.push((65536 - p, p));
        v.push((p, 65536 - p));
    }
    v
}

// ======================================================================
// Configurations

#[derive(Clone, Copy, PartialEq, Eq, Debug)]
pub enum Class {
    Tiny,
    Small,
    Medium,
    Edge,
    Large,
    Corner,
}

impl Class {
    pub fn name(self) -> &'static str {
        match self {
            Class::Tiny => "tiny",
            Class::Small => "small",
            Class::Medium => "medium",
            Class::Edge => "edge",
            Class::Large => "large",
            Class::Corner => "corner",
        }
    }
}

/// value near a power of two (2^n - 1, 2^n, 2^n + 1), 1 <= v <= max
fn near_pow2(rng: &mut Rng, max: usize) -> usize {
    loop {
        let n = rng.below(17) as u32;
        let p = 1usize << n;
        let v = match rng.below(3) {
            0 => p.saturating_sub(1),
            1 => p,
            _ => p + 1,
        };
        if v >= 1 && v <= max {
            return v;
        }
    }
}

/// Draws (k, r) of the given class that `rate` supports (by the model).
pub fn config(rng: &mut Rng, class: Class, rate: RateKind) -> (usize, usize) {
    for _ in 0..10_000 {
        let (k, r) = match class {
            Class::Tiny => (rng.range(1, 8), rng.range(1, 8)),
            Class::Small => (rng.range(1, 64), rng.range(1, 64)),
            Class::Medium => (rng.range(1, 1024), rng.range(1, 1024)),
            Class::Edge => {
                // chunk edges: one side near a power of two, the other a
                // multiple of the chunk size +-1, or also near a power of two
                let a = near_pow2(rng, 2048);
                let chunk = p2(a);
                let b = match rng.below(4) {
                    0 => near_pow2(rng, 4096),
                    1 => (chunk * rng.range(1, 6)).saturating_sub(1).max(1),
                    2 => chunk * rng.range(1, 6),
                    _ => chunk * rng.range(1, 6) + 1,
                };
                if rng.chance(1, 2) {
                    (a, b)
                } else {
                    (b, a)
                }
            }
            Class::Large => {
                let a = rng.range(1, 65535);
                let b = if rng.chance(1, 2) {
                    rng.range(1, 4096)
                } else {
                    rng.range(1, 65535)
                };
                if rng.chance(1, 2) {
                    (a, b)
                } else {
                    (b, a)
                }
            }
            Class::Corner => {
                let c = corners();
                let (mut k, mut r) = *rng.pick(&c);
                // the corner itself or a neighbour just inside
                match rng.below(4) {
                    0 => {}
                    1 => k = k.saturating_sub(1).max(1),
                    2 => r = r.saturating_sub(1).max(1),
                    _ => {
                        k = k.saturating_sub(rng.below(3)).max(1);
                        r = r.saturating_sub(rng.below(3)).max(1);
                    }
                }
                (k, r)
            }
        };
        if rate_ok(rate, k, r) {
            return (k, r);
        }
    }
    (1, 1)
}

/// weighted class choice for bulk workloads (cheap classes dominate)
pub fn class_mix(rng: &mut Rng, allow_large: bool) -> Class {
    match rng.below(100) {
        0..=29 => Class::Tiny,
        30..=59 => Class::Small,
        60..=79 => Class::Edge,
        80..=93 => Class::Medium,
        94..=97 if allow_large => Class::Large,
        98..=99 if allow_large => Class::Corner,
        _ => Class::Small,
    }
}

// ======================================================================
// Shard sizes

pub const SIZES: [usize; 16] = [
    2, 4, 6, 30, 32, 34, 62, 64, 66, 126, 128, 130, 190, 192, 254, 258,
];

pub fn shard_size(rng: &mut Rng, k: usize, r: usize) -> usize {
    // Large shard counts usually get tiny shards (speed), but now and then a
    // shard length whose number of 64-byte blocks is not a power of two:
    // anything keyed on (number of shards) x (blocks per shard) needs both.
    let big = k.max(r) > 4096;
    if big {
        if rng.chance(1, 8) {
            return *rng.pick(&[130usize, 190, 192, 300, 320]);
        }
        return *rng.pick(&[2usize, 2, 4, 64, 66]);
    }
    let mid = k.max(r) > 256;
    if mid {
        if rng.chance(1, 8) {
            return *rng.pick(&[190usize, 320, 448, 1088, 1100, 2240]);
        }
        return *rng.pick(&[2usize, 4, 30, 62, 64, 66, 128, 130]);
    }
    let small = k.max(r) <= 16;
    // small configurations: now and then really large shards (more than 1024
    // blocks, lengths around and off multiples of 64 KiB) - always in the
    // thorough tier, rarely in the quick one
    if small && !crate::thorough() && rng.chance(1, 40) {
        return *rng.pick(&[65538usize, 65600, 100_000, 131_072, 196_610]);
    }
    match rng.below(if small && crate::thorough() { 12 } else { 10 }) {
        0..=6 => *rng.pick(&SIZES),
        7 => *rng.pick(&[1022usize, 1024, 1026, 4096, 4098]),
        8 | 9 => 2 * rng.range(1, 200),
        // thorough tier, small configurations: really large shards too
        _ => *rng.pick(&[65534usize, 65536, 65538, 65600, 100_000, 131_072, 262_146, 1_048_576, 1_048_578]),
    }
}

/// The same amount of data in another shape: f times as many shards of a
/// f-th of the blocks, or the other way round (what re-sharding a payload
/// does). Working spaces of equal size and different geometry come from this.
pub fn reshape(rng: &mut Rng, rate: RateKind, k: usize, r: usize, size: usize) -> Option<(usize, usize, usize)> {
    let blocks = size.div_ceil(64);
    let f = *rng.pick(&[2usize, 2, 4, 8]);
    let (k2, r2, b2) = if rng.chance(1, 2) {
        (k * f, r * f, blocks.div_ceil(f))
    } else {
        (k.div_ceil(f), r.div_ceil(f), blocks * f)
    };
    if k2 == 0 || r2 == 0 || b2 == 0 || b2 * 64 > 1 << 22 || k2.max(r2) > 2048 || !rate_ok(rate, k2, r2) {
        return None;
    }
    let size2 = if rng.chance(1, 2) { b2 * 64 } else { b2 * 64 - 2 * rng.range(1, 31) };
    Some((k2, r2, size2))
}

pub fn size_class(size: usize) -> &'static str {
    if size < 64 {
        "lt64"
    } else if size % 64 == 0 {
        "mult64"
    } else {
        "blocks+tail"
    }
}

// ======================================================================
// Engines / APIs

pub fn engine(rng: &mut Rng, k: usize, r: usize) -> EngineKind {
    let big = k.max(r) > 2048;
    let all = if big {
        EngineKind::fast()
    } else {
        EngineKind::all()
    };
    *rng.pick(&all)
}

pub fn api(rng: &mut Rng, rate: RateKind, k: usize, r: usize) -> Api {
    if rate == RateKind::Default && rng.chance(1, 5) {
        Api::Wrapper
    } else {
        Api::Rate(rate, engine(rng, k, r))
    }
}

pub fn rate(rng: &mut Rng) -> RateKind {
    *rng.pick(&RateKind::ALL)
}

// ======================================================================
// Data and erasure sets

pub fn originals(rng: &mut Rng, k: usize, size: usize) -> Vec<Vec<u8>> {
    // mostly random; sometimes sparse (zero symbols occur) or structured
    // (zero runs, constant bytes, repeated shards, small big-endian integers) -
    // data that uniformly random bytes would never produce
    let mode = rng.below(16);
    // mode 3: whole 64-byte blocks are zero at offsets most shards share
    // (zeroed headers, sparse files) with data before and after them
    let blocks = size / 64;
    let zero_blocks: Vec<usize> = if mode == 3 && blocks >= 2 {
        (0..blocks).filter(|_| rng.chance(1, 3)).collect()
    } else {
        Vec::new()
    };
    let mut v: Vec<Vec<u8>> = Vec::with_capacity(k);
    for i in 0..k {
        let mut s = rng.bytes(size);
        match mode {
            3 => {
                if rng.chance(7, 8) {
                    for b in &zero_blocks {
                        s[b * 64..(b + 1) * 64].fill(0);
                    }
                }
            }
            4 => {
                // every whole block zero, structured (see structure_block) or
                // left random; the tail stays random
                for c in s.chunks_exact_mut(64) {
                    match rng.below(3) {
                        0 => c.fill(0),
                        1 => {
                            let mut blk = [0u8; 64];
                            blk.copy_from_slice(c);
                            crate::mon_c03::structure_block(rng, &mut blk);
                            c.copy_from_slice(&blk);
                        }
                        _ => {}
                    }
                }
            }
            0 | 1 => {
                for b in s.iter_mut() {
                    if rng.chance(3, 4) {
                        *b = 0;
                    }
                }
            }
            2 => match rng.below(6) {
                0 => s.fill(0),
                1 => {
                    let c = *rng.pick(&[0x01u8, 0xff, 0x80, 0x55]);
                    s.fill(c);
                }
                2 => {
                    let h = size / 2;
                    s[..h].fill(0);
                }
                3 => {
                    // 8-byte big-endian integers below 2^32
                    for c in s.chunks_mut(8) {
                        let n = c.len().min(4);
                        c[..n].fill(0);
                    }
                }
                4 if i > 0 => {
                    let j = rng.below(i);
                    s = v[j].clone();
                }
                _ => {}
            },
            _ => {}
        }
        v.push(s);
    }
    v
}

/// Originals that are sparse in the *transform domain*: what the encoder's
/// first inverse transform makes of them has only one to three non-zero
/// shards per chunk (they are the forward transform, by the Naive engine, of
/// such a vector; remaining originals are zero). Intermediate values of the
/// coding are then zero in most positions - which is where a shortcut that
/// tests intermediates for zero decides. Only for shard sizes that are
/// multiples of 64 and configurations whose chunks are full.
pub fn spectral_sparse_originals(rng: &mut Rng, high: bool, k: usize, r: usize, size: usize) -> Option<Vec<Vec<u8>>> {
    use reed_solomon_simd::engine::{Engine, Naive, ShardsRefMut};
    if size == 0 || size % 64 != 0 {
        return None;
    }
    let l = size / 64;
    let m = if high { r.next_power_of_two() } else { k.next_power_of_two() };
    if k < m || (!high && k != m) || m > 4096 || m * l > 1 << 16 || (high && k + m > 65536) {
        return None;
    }
    let naive = Naive::new();
    let chunks = if high { k / m } else { 1 };
    let mut out: Vec<Vec<u8>> = Vec::with_capacity(k);
    for c in 0..chunks {
        let mut buf = vec![[0u8; 64]; m * l];
        for _ in 0..rng.range(1, 3) {
            let p = rng.below(m);
            for b in &mut buf[p * l..(p + 1) * l] {
                rng.fill(b);
            }
        }
        // the encoder inverts with skew_delta = end of the chunk (high rate) / 0 (low rate)
        let skew = if high { (c + 1) * m } else { 0 };
        {
            let mut data = ShardsRefMut::new(m, l, &mut buf);
            naive.fft(&mut data, 0, m, m, skew);
        }
        for i in 0..m {
            out.push(buf[i * l..(i + 1) * l].as_flattened().to_vec());
        }
    }
    while out.len() < k {
        out.push(vec![0u8; size]);
    }
    Some(out)
}

/// `originals`, or (one case in ten where it is possible) data that is sparse
/// in the transform domain of the rate that will code it.
pub fn originals_for(rng: &mut Rng, rate: RateKind, k: usize, r: usize, size: usize) -> Vec<Vec<u8>> {
    if rng.chance(1, 10) {
        let high = match rate {
            RateKind::High => true,
            RateKind::Low => false,
            RateKind::Default => rule_high(k, r),
        };
        if let Some(v) = spectral_sparse_originals(rng, high, k, r, size) {
            return v;
        }
    }
    originals(rng, k, size)
}

/// A received set with at least k members: (original indexes, recovery
/// indexes), each ascending. `shape` is returned for coverage accounting.
pub fn received_set(rng: &mut Rng, k: usize, r: usize) -> (Vec<usize>, Vec<usize>, &'static str) {
    let total = k + r;
    // how many shards are given
    let n = match rng.below(10) {
        0..=5 => k,
        6 => total,
        _ => rng.range(k, total),
    };
    let shape = rng.below(6);
    let mut all: Vec<usize> = (0..total).collect(); // < k: original, else recovery
    let name;
    match shape {
        0 => {
            // as many recovery shards as possible (maximum loss of originals)
            name = "max-loss";
            let nrec = r.min(n);
            let norig = n - nrec;
            let mut o: Vec<usize> = (0..k).collect();
            rng.shuffle(&mut o);
            let mut rr: Vec<usize> = (0..r).collect();
            rng.shuffle(&mut rr);
            let mut orig: Vec<usize> = o[..norig].to_vec();
            let mut rec: Vec<usize> = rr[..nrec].to_vec();
            orig.sort_unstable();
            rec.sort_unstable();
            return (orig, rec, name);
        }
        1 => {
            name = "scattered";
            rng.shuffle(&mut all);
        }
        2 => {
            // burst: a contiguous window of the k+r positions is lost
            name = "burst";
            let lost = total - n;
            let start = if total > lost {
                rng.below(total - lost + 1)
            } else {
                0
            };
            let keep: Vec<usize> = (0..total)
                .filter(|i| *i < start || *i >= start + lost)
                .collect();
            all = keep;
        }
        3 => {
            // only the last indexes survive
            name = "tail";
            all = (total - n..total).collect();
        }
        4 => {
            // only the first indexes survive (all originals + first recoveries)
            name = "head";
        }
        _ => {
            // alternating
            name = "alternating";
            let mut ev: Vec<usize> = (0..total).filter(|i| i % 2 == 0).collect();
            let mut od: Vec<usize> = (0..total).filter(|i| i % 2 == 1).collect();
            ev.append(&mut od);
            all = ev;
        }
    }
    all.truncate(n);
    let mut orig: Vec<usize> = all.iter().filter(|i| **i < k).copied().collect();
    let mut rec: Vec<usize> = all.iter().filter(|i| **i >= k).map(|i| i - k).collect();
    orig.sort_unstable();
    rec.sort_unstable();
    (orig, rec, name)
}

/// interleaved add order for a received set: (is_recovery, index)
pub fn add_order(rng: &mut Rng, orig: &[usize], rec: &[usize], shuffle: bool) -> Vec<(bool, usize)> {
    let mut v: Vec<(bool, usize)> = orig
        .iter()
        .map(|i| (false, *i))
        .chain(rec.iter().map(|i| (true, *i)))
        .collect();
    if shuffle {
        rng.shuffle(&mut v);
    }
    v
}
