#!/usr/bin/env python3
"""Regenerates /verif/MANIFEST.json from the table below."""
import json, os
ROOT = os.path.dirname(os.path.dirname(os.path.abspath(__file__)))
props = [json.loads(l)["id"] for l in open(os.path.join(ROOT, "properties.jsonl"))]
TECH = {
"C01": "runtime monitoring: ground-truth round-trip oracle over seeded hostile workloads (all rates, engines, API layers, fresh and pre-used decoders, structured and random data, poisoned working memory on half of the cases); every subset for tiny configurations; ASan in thorough",
"C02": "runtime monitoring: reference-model differential - closed-form scaled-Cauchy generator matrix over the harness's own GF(2^16), and the ancestor crate reed-solomon-16 0.1.0",
"C03": "runtime monitoring: cross-engine differential vs Naive on contract-defined outputs incl. the Neon source on emulated intrinsics, byte-exact range confinement; thorough adds ASan, valgrind memcheck, Miri x86 (+avx2) and Miri aarch64 executing the real Neon engine",
"C04": "runtime monitoring: slot-decomposition metamorphic oracle with poisoned working memory (hook H1); ASan in thorough",
"C05": "runtime monitoring: history differential vs a fresh object, natural and poisoned (hook H1) stale working memory; ASan in thorough",
"C06": "runtime monitoring: shadow-state precondition model judging every public call under catch_unwind, in release and overflow-checked builds",
"C07": "runtime monitoring: twin differential over operation streams with injected failing calls, release and overflow-checked builds",
"C08": "runtime monitoring: exhaustive enumeration of the 65538^2 supports() grid against the README predicate, constructor agreement on the boundary band, round trips of every envelope corner",
"C09": "runtime monitoring: default codec vs dedicated codec named by an independently written selection rule (grid + histories crossing the rule), API-layer differential",
"C10": "runtime monitoring: streaming API as executable model of the one-shot API + truth model for returned errors; iterators with inexact size_hint; calls primed by earlier failing calls",
"C11": "runtime monitoring: metamorphic permutation / superset oracle + ground truth",
"C12": "runtime monitoring: accessor model checked after every round over 1-50 consecutive rounds, release and overflow-checked builds",
"C13": "runtime monitoring: metamorphic linearity relations (additivity, zero, homogeneity with scalars from the harness's own GF), on fresh encoders and as consecutive rounds of one encoder object",
"C14": "runtime monitoring: ISA trace counters + thread-local feature mask (hook H2): the trace of DefaultEngine under each of the four reported subsets is compared with the trace of the explicitly chosen best engine on the same operation; thorough adds Miri builds with {}, +ssse3, +avx2 and aarch64 (unavailable-target-feature UB check + ISA trace)",
"C15": "runtime monitoring: definitional oracles over the harness's own GF(2^16) - every table entry, all 65536 symbols per multiplier and engine, fft/ifft vs polynomial evaluation, eval_poly vs locator sums",
"C16": "runtime monitoring: fresh-process thread schedules racing lazy table initialisation (digests vs sequential reference, exactly-once / end-before-use checker over the H3 event log, deadlock watchdog with /proc sampling) and an in-process migration pool (few configurations, objects hopping between threads mid-round, ground truth); thorough adds ThreadSanitizer (build-std) and Miri many-seeds",
"C17": "runtime monitoring: counting global allocator around every step of a history run at shard sizes S and 8S (scale differential); working-space need calibrated from the crate's own fresh constructions (allocations that scale); result-address stability",
}
checks = []
for p in props:
    checks.append({
        "property_id": p,
        "quick_cmd": f"python3 check.py {p} --tier quick",
        "thorough_cmd": f"python3 check.py {p} --tier thorough",
        "evidence_file": f"/verif/evidence/{p}.json",
        "replay_cmd_template": f"python3 check.py {p} --replay {{path}}",
        "engine": "rsmon",
        "level_claimed": {
            "category": "exploration",
            "text": "Held on the executions observed: an input-independent oracle judged every one of the seeded, adversarially chosen cases that the evidence file counts and samples" + (" (the supports() grid is enumerated completely)" if p == "C08" else "") + ". Nothing is claimed about executions that were not produced.",
            "design_ref": f"DESIGN.md section 3, {p}",
        },
        "level_note": "Trusted: the harness oracles (own GF(2^16) self-checked against carry-less multiplication; models written from the property text), rustc/Miri/sanitizer runtimes, the host CPU. Inputs, histories and schedules are sampled (seeded by VERIF_SEED), not exhaustive, except where the evidence says so.",
        "technique": TECH[p],
    })
m = {
    "version": 1,
    "setup_cmd": "python3 check.py --setup",
    "hooks": {
        "guard": "cargo feature verif-hooks (off by default)",
        "enable": "the harness depends on /repo (path dependency) with features = [\"verif-hooks\"] through its own feature 'hooks'",
        "baseline_off_cmd": "cd /repo && cargo test --workspace --no-fail-fast --offline",
        "source_commits": ["f552fed", "3e91167", "390c01c", "0f0fe61"],
        "add_only": True,
    },
    "engines": [
        {"name": "rsmon", "path": "/verif/harness", "serves_properties": props,
         "kind_free_text": "Rust harness linking /repo as a path dependency (feature verif-hooks); one monitor module per property; binaries rsmon (native monitors, also built with ASan / TSan) and rsmiri (lean workloads for Miri x86 and aarch64)"},
        {"name": "check.py", "path": "/verif/check.py", "serves_properties": props,
         "kind_free_text": "driver: builds the harness against /repo's working tree, runs the stages of stages.py (native release / overflow-checked, ASan, valgrind, TSan, Miri), three-valued verdict, evidence, replay files, known-findings matching"},
    ],
    "checks": checks,
    "not_applicable": [],
    "notes": "Unguarded fix commits in /repo: 93e3bdc (C06/C12), db2c2b6 (C05/C06/C07), f0419d8 (C10); see known_findings.json and DESIGN.md section 6. Exit codes of check.py: 0 held, 1 violation (VIOLATION line), 2 broken/inconclusive-only check (no VIOLATION line).",
}
json.dump(m, open(os.path.join(ROOT, "MANIFEST.json"), "w"), indent=1)
print("wrote MANIFEST.json with", len(checks), "checks")
