//! C16 - independent codec objects can be used concurrently from any threads.
//! Each schedule runs in a fresh child process (so that the lazily initialised
//! global tables are raced for again): 2-16 threads wait on a barrier, then each
//! performs a role whose first touch hits a different subset of the tables.
//! Monitors: result digests vs a sequential reference; exactly-once / ordering
//! of table initialisation from the H3 event log; panics; deadlock watchdog.
//! The same child workload is what runs under TSan and Miri (see special.py).

use std::collections::{BTreeMap, BTreeSet};
use std::io::Read;
use std::process::{Command, Stdio};
use std::sync::atomic::{AtomicU64, Ordering};
use std::sync::{mpsc, Arc, Barrier, Mutex};
use std::time::{Duration, Instant};

use reed_solomon_simd::engine::{tables, DefaultEngine, Engine, Naive, NoSimd, ShardsRefMut};
use reed_solomon_simd::rate::{
    DefaultRateDecoder, DefaultRateEncoder, HighRateDecoder, HighRateEncoder, LowRateDecoder, LowRateEncoder,
    RateDecoder, RateEncoder,
};
use reed_solomon_simd::{ReedSolomonDecoder, ReedSolomonEncoder};

use crate::hooks;
use crate::util::{hash_bytes, jobj, jstr, mix, Agg, CaseOut, Rng, RunCfg};

pub const N_ROLES: usize = 13;
const ROLE_NAMES: [&str; N_ROLES] = [
    "naive-encode",
    "nosimd-roundtrip",
    "ssse3-roundtrip",
    "avx2-roundtrip",
    "wrapper-roundtrip",
    "oneshot-roundtrip",
    "tables-deref",
    "eval-poly-first",
    "default-engine-primitives",
    "handover-encoder",
    "handover-decoder",
    "lowrate-nosimd-roundtrip",
    "nested-oneshot",
];

// table ids as in the hook module
const T_EXP_LOG: u64 = 0;
const T_LOG_WALSH: u64 = 1;
const T_MUL16: u64 = 2;
const T_MUL128: u64 = 3;
const T_SKEW: u64 = 4;
const T_NAMES: [&str; 5] = ["ExpLog", "LogWalsh", "Mul16", "Mul128", "Skew"];
const EV_BEGIN: u64 = 0;
const EV_END: u64 = 1;
const EV_USE: u64 = 2;

fn data(rng: &mut Rng, k: usize, size: usize) -> Vec<Vec<u8>> {
    (0..k).map(|_| rng.bytes(size)).collect()
}

fn digest_shards(h0: u64, v: &[Vec<u8>]) -> u64 {
    let mut h = h0;
    for s in v {
        h = hash_bytes(h, s);
    }
    h
}

fn roundtrip<E: Engine, EN: RateEncoder<E>, DE: RateDecoder<E>>(
    rng: &mut Rng,
    mk: impl Fn() -> E,
    k: usize,
    r: usize,
    size: usize,
) -> u64 {
    let originals = data(rng, k, size);
    let mut enc = EN::new(k, r, size, mk(), None).expect("new encoder");
    for o in &originals {
        enc.add_original_shard(o).expect("add");
    }
    let recovery: Vec<Vec<u8>> = enc.encode().expect("encode").recovery_iter().map(<[u8]>::to_vec).collect();
    let mut dec = DE::new(k, r, size, mk(), None).expect("new decoder");
    let lose = r.min(k);
    for i in lose..k {
        dec.add_original_shard(i, &originals[i]).expect("add");
    }
    for i in 0..lose {
        dec.add_recovery_shard(i, &recovery[i]).expect("add");
    }
    let res = dec.decode().expect("decode");
    let mut h = digest_shards(7, &recovery);
    for (i, s) in res.restored_original_iter() {
        assert_eq!(s, &originals[i][..], "restored original {i} is wrong");
        h = hash_bytes(h ^ i as u64, s);
    }
    h
}

/// One role. `seed` fixes the data, so that the digest is schedule independent.
pub fn role(kind: usize, seed: u64, record_use: bool) -> u64 {
    let mut rng = Rng::new(seed);
    let k = rng.range(1, 24);
    let r = rng.range(1, 24);
    let size = *rng.pick(&[2usize, 64, 66, 100, 130]);
    let used = |t: u64| {
        if record_use {
            hooks::table_event(t, EV_USE);
        }
    };
    match kind {
        0 => {
            let e = Naive::new();
            used(T_EXP_LOG);
            used(T_SKEW);
            let originals = data(&mut rng, k, size);
            let mut enc = HighRateEncoder::new(k.max(r), r.min(k), size, e, None).expect("new");
            let originals: Vec<Vec<u8>> = (0..k.max(r)).map(|i| originals[i % k].clone()).collect();
            for o in &originals {
                enc.add_original_shard(o).expect("add");
            }
            let res = enc.encode().expect("encode");
            let v: Vec<Vec<u8>> = res.recovery_iter().map(<[u8]>::to_vec).collect();
            digest_shards(1, &v)
        }
        1 => {
            let h = roundtrip::<NoSimd, DefaultRateEncoder<NoSimd>, DefaultRateDecoder<NoSimd>>(&mut rng, NoSimd::new, k, r, size);
            used(T_MUL16);
            used(T_SKEW);
            used(T_LOG_WALSH);
            h
        }
        #[cfg(target_arch = "x86_64")]
        2 if std::arch::is_x86_feature_detected!("ssse3") => {
            use reed_solomon_simd::engine::Ssse3;
            let h = roundtrip::<Ssse3, DefaultRateEncoder<Ssse3>, DefaultRateDecoder<Ssse3>>(&mut rng, Ssse3::new, k, r, size);
            used(T_MUL128);
            used(T_SKEW);
            used(T_LOG_WALSH);
            h
        }
        #[cfg(target_arch = "x86_64")]
        3 if std::arch::is_x86_feature_detected!("avx2") => {
            use reed_solomon_simd::engine::Avx2;
            let (kk, rr) = (k.max(r), k.min(r));
            let h = roundtrip::<Avx2, HighRateEncoder<Avx2>, HighRateDecoder<Avx2>>(&mut rng, Avx2::new, kk, rr, size);
            used(T_MUL128);
            used(T_SKEW);
            used(T_LOG_WALSH);
            h
        }
        4 => {
            let originals = data(&mut rng, k, size);
            let mut enc = ReedSolomonEncoder::new(k, r, size).expect("new");
            for o in &originals {
                enc.add_original_shard(o).expect("add");
            }
            let recovery: Vec<Vec<u8>> = enc.encode().expect("encode").recovery_iter().map(<[u8]>::to_vec).collect();
            let mut dec = ReedSolomonDecoder::new(k, r, size).expect("new");
            let lose = r.min(k);
            for i in lose..k {
                dec.add_original_shard(i, &originals[i]).expect("add");
            }
            for i in 0..lose {
                dec.add_recovery_shard(i, &recovery[i]).expect("add");
            }
            let res = dec.decode().expect("decode");
            let mut h = digest_shards(4, &recovery);
            for (i, s) in res.restored_original_iter() {
                assert_eq!(s, &originals[i][..]);
                h = hash_bytes(h ^ i as u64, s);
            }
            used(T_SKEW);
            used(T_LOG_WALSH);
            h
        }
        5 => {
            let originals = data(&mut rng, k, size);
            let recovery = reed_solomon_simd::encode(k, r, &originals).expect("encode");
            let lose = r.min(k);
            let restored = reed_solomon_simd::decode(
                k,
                r,
                (lose..k).map(|i| (i, &originals[i])),
                (0..lose).map(|i| (i, &recovery[i])),
            )
            .expect("decode");
            let mut h = digest_shards(5, &recovery);
            for i in 0..lose {
                assert_eq!(restored[&i], originals[i]);
                h = hash_bytes(h ^ i as u64, &restored[&i]);
            }
            h
        }
        6 => {
            // direct derefs, in a seed-dependent order
            let mut order = [0usize, 1, 2, 3, 4];
            rng.shuffle(&mut order);
            let mut h = 6u64;
            for t in order {
                match t {
                    0 => {
                        let x = &*tables::EXP_LOG;
                        used(T_EXP_LOG);
                        h = mix(h, u64::from(x.exp[12345]) << 16 | u64::from(x.log[54321]));
                    }
                    1 => {
                        let x = &*tables::LOG_WALSH;
                        used(T_LOG_WALSH);
                        h = mix(h, u64::from(x[777]) << 16 | u64::from(x[65535]));
                    }
                    2 => {
                        let x = &*tables::MUL16;
                        used(T_MUL16);
                        h = mix(h, u64::from(x[4242][3][15]));
                    }
                    3 => {
                        let x = &*tables::MUL128;
                        used(T_MUL128);
                        h = mix(h, x[4242].lo[2] as u64 ^ x[65535].hi[3] as u64);
                    }
                    _ => {
                        let x = &*tables::SKEW;
                        used(T_SKEW);
                        h = mix(h, u64::from(x[0]) << 16 | u64::from(x[65534]));
                    }
                }
            }
            h
        }
        7 => {
            let mut e = Box::new([0u16; 65536]);
            for _ in 0..rng.range(1, 50) {
                e[rng.below(4096)] = 1;
            }
            NoSimd::eval_poly(&mut e, 4096);
            used(T_LOG_WALSH);
            let bytes: Vec<u8> = e.iter().flat_map(|x| x.to_le_bytes()).collect();
            hash_bytes(7, &bytes)
        }
        8 => {
            let e = DefaultEngine::new();
            used(T_SKEW);
            let mut buf = vec![[0u8; 64]; 32];
            for b in buf.iter_mut() {
                rng.fill(b);
            }
            e.mul(&mut buf[..4], rng.next_u64() as u16);
            let mut d = ShardsRefMut::new(32, 1, &mut buf);
            e.ifft(&mut d, 0, 16, 16, 16);
            e.fft(&mut d, 16, 16, 9, 32);
            hash_bytes(8, buf.as_flattened())
        }
        9 => {
            // encoder moved to another thread in the middle of a round
            let originals = data(&mut rng, k, size);
            let mut enc = ReedSolomonEncoder::new(k, r, size).expect("new");
            let half = k / 2;
            for o in &originals[..half] {
                enc.add_original_shard(o).expect("add");
            }
            let (tx, rx) = mpsc::channel::<ReedSolomonEncoder>();
            let rest: Vec<Vec<u8>> = originals[half..].to_vec();
            let t = std::thread::spawn(move || {
                let mut enc = rx.recv().expect("recv");
                for o in &rest {
                    enc.add_original_shard(o).expect("add");
                }
                let res = enc.encode().expect("encode");
                let v: Vec<Vec<u8>> = res.recovery_iter().map(<[u8]>::to_vec).collect();
                digest_shards(9, &v)
            });
            tx.send(enc).expect("send");
            t.join().expect("handover thread panicked")
        }
        10 => {
            let originals = data(&mut rng, k, size);
            let recovery = reed_solomon_simd::encode(k, r, &originals).expect("encode");
            let lose = r.min(k);
            let mut dec = ReedSolomonDecoder::new(k, r, size).expect("new");
            for i in lose..k {
                dec.add_original_shard(i, &originals[i]).expect("add");
            }
            let (tx, rx) = mpsc::channel::<ReedSolomonDecoder>();
            let rec2: Vec<Vec<u8>> = recovery[..lose].to_vec();
            let orig2 = originals.clone();
            let t = std::thread::spawn(move || {
                let mut dec = rx.recv().expect("recv");
                for (i, s) in rec2.iter().enumerate() {
                    dec.add_recovery_shard(i, s).expect("add");
                }
                let res = dec.decode().expect("decode");
                let mut h = 10u64;
                for (i, s) in res.restored_original_iter() {
                    assert_eq!(s, &orig2[i][..]);
                    h = hash_bytes(h ^ i as u64, s);
                }
                h
            });
            tx.send(dec).expect("send");
            t.join().expect("handover thread panicked")
        }
        11 => {
            let (kk, rr) = (k.min(r), k.max(r));
            roundtrip::<NoSimd, LowRateEncoder<NoSimd>, LowRateDecoder<NoSimd>>(&mut rng, NoSimd::new, kk, rr, size)
        }
        12 => {
            // One-shot calls whose input iterators are lazy and themselves
            // use the library: every shard of the outer encode comes out of
            // an inner one-shot encode at the moment the outer call asks for
            // it, and the recovery shards fed to the outer decode come out of
            // an inner decode. (Nothing a one-shot function holds while it
            // pulls its input may be needed by another call.)
            let originals = data(&mut rng, k, size);
            let outer = reed_solomon_simd::encode(
                k,
                r,
                originals.iter().map(|o| reed_solomon_simd::encode(1, 1, [o]).expect("inner encode").remove(0)),
            )
            .expect("outer encode");
            // with 1 + 1 shards the recovery shard equals the original, so the
            // outer code words are those of `originals`
            let want = reed_solomon_simd::encode(k, r, &originals).expect("plain encode");
            assert!(outer == want, "nested one-shot encode differs from the plain one");
            let restored = reed_solomon_simd::decode(
                k,
                r,
                [(0usize, &originals[0])].into_iter().take(usize::from(k > r)),
                (0..r.min(k)).map(|j| {
                    // the j-th recovery shard, restored from itself by an inner decode of a 1 + 1 code
                    let m = reed_solomon_simd::decode(1, 1, std::iter::empty::<(usize, &Vec<u8>)>(), [(0usize, &outer[j])]).expect("inner decode");
                    (j, m[&0].clone())
                }),
            );
            let mut h = digest_shards(12, &outer);
            if let Ok(m) = restored {
                let mut idx: Vec<&usize> = m.keys().collect();
                idx.sort();
                for i in idx {
                    h = hash_bytes(h ^ *i as u64, &m[i]);
                }
            } else {
                h ^= 0xdead;
            }
            h
        }
        _ => {
            // SIMD role on a CPU without the feature: portable stand-in
            roundtrip::<NoSimd, DefaultRateEncoder<NoSimd>, DefaultRateDecoder<NoSimd>>(&mut rng, NoSimd::new, k, r, size)
        }
    }
}

/// roles assigned to the threads of schedule `seed`
pub fn schedule(seed: u64) -> Vec<(usize, u64, u64)> {
    let mut rng = Rng::new(seed);
    let threads = rng.range(2, 16);
    // aimed bursts: every thread runs the same kind of role (so that all of
    // them reach the same table first), each with its own data
    let one_kind = match burst_mode(seed) {
        Burst::Aimed { .. } => Some(*Rng::new(seed ^ 0xA1).pick(&[0usize, 1, 2, 3, 6, 7, 8])),
        _ => None,
    };
    (0..threads)
        .map(|_| {
            let kind = rng.below(N_ROLES);
            let kind = one_kind.unwrap_or(kind);
            let role_seed = rng.next_u64();
            // stagger after the barrier, in microseconds
            let stagger = match rng.below(4) {
                0 => 0,
                1 => rng.below(200) as u64,
                _ => rng.below(2000) as u64,
            };
            (kind, role_seed, stagger)
        })
        .collect()
}

/// How the threads of a schedule are released after the barrier.
/// *Staggered*: each sleeps its own 0-2 ms. *Burst*: thread 0 starts at once
/// (and becomes the initialiser of whatever its role touches first); all
/// others spin until a common instant 20 us - 4 ms later and start together.
/// *Aimed*: the others spin until the event log (hook H3) shows that the
/// initialisation of table `table` has begun, wait `permille`/1000 of the
/// time that initialisation took in earlier children of this run (passed in
/// by the parent), and start together - a crowd arriving while, or just
/// when, an initialisation completes. Sleeping staggers (tens of
/// microseconds of jitter, one thread at a time) practically never do that.
#[derive(Clone, Copy, Debug, PartialEq)]
pub enum Burst {
    Staggered,
    Random { delay_ns: u64 },
    Aimed { table: u64, permille: u64 },
}

pub fn burst_mode(seed: u64) -> Burst {
    let mut rng = Rng::new(seed ^ 0xB0257);
    match rng.below(4) {
        0 => {
            // log-uniform
            let lo = (20_000f64).ln();
            let hi = (4_000_000f64).ln();
            let u = rng.below(1 << 20) as f64 / (1u64 << 20) as f64;
            Burst::Random { delay_ns: (lo + (hi - lo) * u).exp() as u64 }
        }
        1 | 2 => Burst::Aimed { table: rng.below(5) as u64, permille: rng.range(850, 1030) as u64 },
        _ => Burst::Staggered,
    }
}

fn spin_until(t: Instant) {
    while Instant::now() < t {
        std::hint::spin_loop();
    }
}

/// first time the event log shows (table, kind); None after `patience`
fn wait_for_event(table: u64, kind: u64, patience: Duration) -> Option<Instant> {
    let t0 = Instant::now();
    loop {
        if hooks::table_events().iter().any(|e| e.0 == table && e.1 == kind) {
            return Some(Instant::now());
        }
        if t0.elapsed() > patience {
            return None;
        }
        std::hint::spin_loop();
    }
}

/// Child process: run one schedule, print digests and the event log.
pub fn child(seed: u64) {
    let sched = schedule(seed);
    let burst = burst_mode(seed);
    // build times of the five tables seen in earlier children (ns; 0 = unknown)
    let hints: Vec<u64> = std::env::var("RSMON_C16_BUILD_NS")
        .ok()
        .map(|v| v.split(',').map(|x| x.parse().unwrap_or(0)).collect())
        .unwrap_or_default();
    let running = Arc::new(std::sync::atomic::AtomicUsize::new(sched.len()));
    let barrier = Arc::new(Barrier::new(sched.len()));
    let handles: Vec<_> = sched
        .iter()
        .cloned()
        .enumerate()
        .map(|(i, (kind, role_seed, stagger))| {
            let b = barrier.clone();
            let running = running.clone();
            let hint = match burst {
                Burst::Aimed { table, .. } => hints.get(table as usize).copied().unwrap_or(0),
                _ => 0,
            };
            std::thread::spawn(move || {
                b.wait();
                match burst {
                    Burst::Random { delay_ns } if i > 0 => spin_until(Instant::now() + Duration::from_nanos(delay_ns)),
                    Burst::Aimed { table, permille } if i > 0 => {
                        // without a hint (first children of a run) just follow the beginning
                        if let Some(t) = wait_for_event(table, EV_BEGIN, Duration::from_millis(20)) {
                            spin_until(t + Duration::from_nanos(hint * permille / 1000));
                        }
                    }
                    Burst::Staggered if stagger > 0 => std::thread::sleep(Duration::from_micros(stagger)),
                    _ => {}
                }
                let r = crate::util::guarded(|| role(kind, role_seed, true));
                running.fetch_sub(1, Ordering::SeqCst);
                (i, kind, r)
            })
        })
        .collect();
    // the main thread watches the event log and times every initialisation
    // it sees from beginning to end (for the parent's hints to later children)
    if hooks::armed() {
        let mut begun: [Option<Instant>; 5] = [None; 5];
        let mut took: [u64; 5] = [0; 5];
        // (bounded: a stuck child must end up with every thread asleep,
        // which is what the parent's deadlock verdict looks for)
        let watch_until = Instant::now() + Duration::from_millis(300);
        while running.load(Ordering::SeqCst) > 0 && Instant::now() < watch_until {
            let now = Instant::now();
            for (t, k, _) in hooks::table_events() {
                let t = t as usize;
                if t < 5 {
                    if k == EV_BEGIN && begun[t].is_none() {
                        begun[t] = Some(now);
                    }
                    if k == EV_END && took[t] == 0 {
                        if let Some(b) = begun[t] {
                            took[t] = (now - b).as_nanos().max(1) as u64;
                        }
                    }
                }
            }
            std::hint::spin_loop();
        }
        println!("build_ns {}", took.iter().map(u64::to_string).collect::<Vec<_>>().join(","));
    }
    for h in handles {
        match h.join() {
            Ok((i, kind, Ok(d))) => println!("role {i} {kind} {d}"),
            Ok((i, kind, Err(p))) => println!("panic {i} {kind} {}", p.replace('\n', " ")),
            Err(_) => println!("panic ? ? thread join failed"),
        }
    }
    let ev: Vec<String> = hooks::table_events().iter().map(|(t, k, th)| format!("{t}.{k}.{th}")).collect();
    println!("events {}", ev.join(","));
}

fn proc_all_sleeping(pid: u32) -> Option<(bool, u64)> {
    // (every thread in state S, total utime+stime of all threads); when a
    // process looks at itself, the looking thread is left out
    let mut all_sleep = true;
    let mut cpu = 0u64;
    let own_tid = if pid == std::process::id() {
        std::fs::read_link("/proc/thread-self").ok().and_then(|p| p.file_name().map(|n| n.to_os_string()))
    } else {
        None
    };
    let dir = std::fs::read_dir(format!("/proc/{pid}/task")).ok()?;
    for t in dir.flatten() {
        if Some(t.file_name()) == own_tid {
            continue;
        }
        let s = std::fs::read_to_string(t.path().join("stat")).ok()?;
        let rest = s.rsplit_once(')')?.1;
        let f: Vec<&str> = rest.split_whitespace().collect();
        if f.first() != Some(&"S") {
            all_sleep = false;
        }
        cpu += f.get(11)?.parse::<u64>().ok()? + f.get(12)?.parse::<u64>().ok()?;
    }
    Some((all_sleep, cpu))
}

fn check_events(line: &str, out: &mut CaseOut, desc: &str) -> String {
    // events: table.kind.thread in sequence order
    let ev: Vec<(u64, u64, u64)> = line
        .split(',')
        .filter(|s| !s.is_empty())
        .filter_map(|s| {
            let p: Vec<u64> = s.split('.').filter_map(|x| x.parse().ok()).collect();
            (p.len() == 3).then(|| (p[0], p[1], p[2]))
        })
        .collect();
    let mut begin: BTreeMap<u64, usize> = BTreeMap::new();
    let mut end: BTreeMap<u64, usize> = BTreeMap::new();
    for (seq, (t, k, _)) in ev.iter().enumerate() {
        let name = T_NAMES.get(*t as usize).copied().unwrap_or("?");
        match *k {
            EV_BEGIN => {
                if begin.insert(*t, seq).is_some() {
                    out.violate(format!("C16:table-initialised-twice:{name}"), format!("{desc}: table {name} began initialisation twice; events {line}"));
                }
            }
            EV_END => {
                if end.insert(*t, seq).is_some() {
                    out.violate(format!("C16:table-initialised-twice:{name}"), format!("{desc}: table {name} finished initialisation twice; events {line}"));
                }
                if !begin.contains_key(t) {
                    out.violate(format!("C16:init-end-without-begin:{name}"), format!("{desc}: events {line}"));
                }
            }
            EV_USE => match (begin.get(t), end.get(t)) {
                (_, Some(e)) if *e < seq => {}
                // the initialiser of this table is not instrumented (any more):
                // nothing can be said about it
                (None, None) => {
                    let note = format!("H3 hook not reached for table {name}: exactly-once / end-before-use not observable");
                    if !out.inconclusive.contains(&note) {
                        out.inconclusive.push(note);
                    }
                }
                _ => out.violate(
                    format!("C16:table-used-before-initialised:{name}"),
                    format!("{desc}: a deref of {name} returned (event {seq}) before its initialisation completed; events {line}"),
                ),
            },
            _ => {}
        }
    }
    // interleaving signature: begin/end events with threads renamed in order of appearance
    let mut names: BTreeMap<u64, usize> = BTreeMap::new();
    let sig: Vec<String> = ev
        .iter()
        .filter(|e| e.1 != EV_USE)
        .map(|(t, k, th)| {
            let n = names.len();
            let id = *names.entry(*th).or_insert(n);
            format!("{}{}{}", T_NAMES[*t as usize % 5].chars().next().unwrap(), if *k == EV_BEGIN { "<" } else { ">" }, id)
        })
        .collect();
    sig.join("")
}

// ======================================================================
// Migration pool: few configurations, several threads, objects that keep
// moving between threads in the middle of their rounds (in-process stage).

struct Job {
    /// encoder jobs carry an encoder as well; their rounds are encode rounds
    enc: Option<Box<dyn crate::codec::DynEnc + Send>>,
    dec: Box<dyn crate::codec::DynDec + Send>,
    api: crate::codec::Api,
    k: usize,
    r: usize,
    size: usize,
    originals: Vec<Vec<u8>>,
    recovery: Vec<Vec<u8>>,
    /// shards still to be added in this round: (is_recovery, index)
    todo: Vec<(bool, usize)>,
    given_originals: Vec<usize>,
    rounds_left: usize,
    rng: Rng,
    trail: Vec<String>,
}

enum Msg {
    Job(Box<Job>),
    Stop,
}

/// The universe of this run: a handful of (rate, k, r) whose positions all lie
/// below 16, and a handful of position masks that serve as received sets for
/// every configuration. Few keys on purpose: independent objects are meant to
/// collide in everything but their identity.
struct Universe {
    configs: Vec<(crate::codec::RateKind, usize, usize)>,
    masks: Vec<u16>,
}

fn universe(rng: &mut Rng) -> Universe {
    use crate::codec::RateKind;
    // all gap-free configurations that occupy exactly the positions 0..f:
    // every received-set mask then means the same bits for each of them,
    // although originals and recovery shards sit at different positions
    let f = *rng.pick(&[7usize, 11, 13, 14, 15, 15]);
    let mut all = Vec::new();
    for a in [1usize, 2, 4, 8] {
        if a < f {
            all.push((RateKind::Low, a, f - a)); // originals 0..a, recovery a..f
            all.push((RateKind::High, f - a, a)); // recovery 0..a, originals a..f
        }
    }
    rng.shuffle(&mut all);
    all.truncate(6);
    let masks = (0..4).map(|_| (rng.next_u64() | rng.next_u64()) as u16).collect();
    Universe { configs: all, masks }
}

/// positions (original index -> position, recovery index -> position)
fn positions(rate: crate::codec::RateKind, k: usize, r: usize) -> (usize, usize) {
    match rate {
        crate::codec::RateKind::High => (r.next_power_of_two(), 0),
        _ => (0, k.next_power_of_two()),
    }
}

fn pool_config(rng: &mut Rng, u: &Universe) -> (crate::codec::Api, usize, usize, usize) {
    use crate::codec::{Api, EngineKind};
    let (rate, k, r) = *rng.pick(&u.configs);
    let eng = *rng.pick(&[EngineKind::NoSimd, EngineKind::Avx2, EngineKind::Naive]);
    let eng = if eng.available() { eng } else { EngineKind::NoSimd };
    (Api::Rate(rate, eng), k, r, *rng.pick(&[2usize, 64]))
}

fn pool_new_round(job: &mut Job, u: &Universe) {
    let rng = &mut job.rng;
    job.originals = (0..job.k).map(|_| rng.bytes(job.size)).collect();
    let rate = match job.api {
        crate::codec::Api::Wrapper => crate::codec::RateKind::Default,
        crate::codec::Api::Rate(rt, _) => rt,
    };
    job.recovery = crate::codec::encode_fresh(
        crate::codec::Api::Rate(rate, crate::codec::EngineKind::NoSimd),
        job.k,
        job.r,
        job.size,
        &job.originals,
    )
    .expect("reference encode");
    if job.enc.is_some() {
        job.given_originals.clear();
        job.todo = (0..job.k).map(|i| (false, i)).collect();
        return;
    }
    // received set: one of the run's position masks, completed if it is too small
    let (ob, rb) = positions(rate, job.k, job.r);
    let mask = *rng.pick(&u.masks);
    let mut oi: Vec<usize> = (0..job.k).filter(|i| mask >> (ob + i) & 1 != 0).collect();
    let mut ri: Vec<usize> = (0..job.r).filter(|i| mask >> (rb + i) & 1 != 0).collect();
    let mut next = 0;
    while oi.len() + ri.len() < job.k {
        if !ri.contains(&next) && next < job.r {
            ri.push(next);
        } else if !oi.contains(&next) && next < job.k {
            oi.push(next);
        }
        next += 1;
    }
    oi.sort_unstable();
    ri.sort_unstable();
    job.given_originals = oi.clone();
    job.todo = oi.iter().map(|i| (false, *i)).chain(ri.iter().map(|i| (true, *i))).collect();
    let seed = rng.next_u64();
    Rng::new(seed).shuffle(&mut job.todo);
}

fn migration_stage(cfg: &RunCfg, agg: &Mutex<Agg>) {
    use crate::codec;
    // a replay (`--case`) runs this stage only when it is the one asked for
    if !cfg.stage_enabled("migration") || (cfg.only_case.is_some() && cfg.only_stage.as_deref() != Some("migration")) {
        return;
    }
    let threads = 6usize;
    // few objects per thread (their identities collide across threads), many rounds
    let per_thread = 3usize;
    let rounds = (crate::count(cfg, 3000, 40_000) as usize).div_ceil(threads * per_thread).max(4);
    let (txs, rxs): (Vec<_>, Vec<_>) = (0..threads).map(|_| mpsc::channel::<Msg>()).unzip();
    let live = Arc::new(std::sync::atomic::AtomicUsize::new(per_thread * threads));
    let out = Mutex::new(CaseOut::default());
    let decodes = AtomicU64::new(0);
    let moves = AtomicU64::new(0);
    let mut rng = Rng::new(mix(cfg.seed, 0x316));
    let uni = universe(&mut rng);
    let seeds: Vec<u64> = (0..threads).map(|_| rng.next_u64()).collect();
    let start = Barrier::new(threads);
    std::thread::scope(|s| {
        for (t, rx) in rxs.into_iter().enumerate() {
            let txs = txs.clone();
            let (live, out, decodes, moves, uni, start) = (&live, &out, &decodes, &moves, &uni, &start);
            let seed = seeds[t];
            s.spawn(move || {
                // every thread configures its own decoders, in the same order
                // (first for a larger configuration, then reset to a small one)
                let mut rng = Rng::new(seed);
                let mut mine = Vec::new();
                for _ in 0..per_thread {
                    let (api, k, r, size) = pool_config(&mut rng, uni);
                    let mut dec = codec::make_dec(api, 16, 16, size, None).expect("new");
                    dec.reset(k, r, size).expect("reset");
                    let enc = if rng.chance(1, 3) {
                        let mut e = codec::make_enc(api, 16, 16, size, None).expect("new");
                        e.reset(k, r, size).expect("reset");
                        Some(e)
                    } else {
                        None
                    };
                    let mut job = Box::new(Job {
                        enc,
                        dec,
                        api,
                        k,
                        r,
                        size,
                        originals: Vec::new(),
                        recovery: Vec::new(),
                        todo: Vec::new(),
                        given_originals: Vec::new(),
                        rounds_left: rounds,
                        rng: Rng::new(rng.next_u64()),
                        trail: vec![format!("t{t}:new {}(16,16) reset({k},{r},{size})", api.name())],
                    });
                    pool_new_round(&mut job, uni);
                    mine.push(job);
                }
                start.wait();
                for (j, job) in mine.into_iter().enumerate() {
                    let _ = txs[(t + 1 + j) % txs.len()].send(Msg::Job(job));
                }
                while let Ok(Msg::Job(mut job)) = rx.recv() {
                    let res = crate::util::guarded(|| {
                        // one step on this thread
                        if let Some(enc) = job.enc.as_mut() {
                            // encoder job: `todo` counts the originals still to add
                            let n = job.rng.range(1, 4).min(job.todo.len());
                            for _ in 0..n {
                                job.todo.remove(0);
                                let i = job.k - job.todo.len() - 1;
                                enc.add(&job.originals[i]).map_err(|e| format!("encoder add failed: {e:?}"))?;
                            }
                            job.trail.push(format!("t{t}:enc-add{n}"));
                            if job.todo.is_empty() {
                                let obs = enc.encode_obs(&[]).map_err(|e| format!("encode failed: {e:?}"))?;
                                decodes.fetch_add(1, Ordering::Relaxed);
                                if obs.iter != job.recovery {
                                    return Err("recovery shards of a moved encoder differ from the sequential reference".to_string());
                                }
                                job.trail.push(format!("t{t}:encode-ok"));
                                job.rounds_left -= 1;
                                if job.rounds_left > 0 {
                                    pool_new_round(&mut job, uni);
                                }
                            }
                            return Ok(());
                        }
                        let n = job.rng.range(1, 4).min(job.todo.len());
                        for _ in 0..n {
                            let (is_rec, i) = job.todo.remove(0);
                            let r = if is_rec { job.dec.add_recovery(i, &job.recovery[i]) } else { job.dec.add_original(i, &job.originals[i]) };
                            if let Err(e) = r {
                                return Err(format!("add failed: {e:?}"));
                            }
                        }
                        job.trail.push(format!("t{t}:add{n}"));
                        if job.todo.is_empty() {
                            let obs = job.dec.decode_obs(&[]).map_err(|e| format!("decode failed: {e:?}"))?;
                            decodes.fetch_add(1, Ordering::Relaxed);
                            let want = crate::mon_c01::expected(&job.originals, &job.given_originals);
                            if obs.iter != want {
                                return Err(format!("restored shards wrong: {}", crate::mon_c01::first_diff(&obs.iter, &want)));
                            }
                            job.trail.push(format!("t{t}:decode-ok"));
                            job.rounds_left -= 1;
                            if job.rounds_left > 0 {
                                if job.rng.chance(1, 200) {
                                    // (rarely) reconfigure here (this thread becomes the configuring thread)
                                    let (api, k, r, size) = pool_config(&mut job.rng, uni);
                                    if api == job.api {
                                        job.dec.reset(k, r, size).map_err(|e| format!("reset failed: {e:?}"))?;
                                    } else {
                                        let work = std::mem::replace(&mut job.dec, codec::make_dec(api, 1, 1, 2, None).map_err(|e| format!("{e:?}"))?).into_work();
                                        job.dec = codec::make_dec(api, k, r, size, work).map_err(|e| format!("new failed: {e:?}"))?;
                                        job.api = api;
                                    }
                                    job.k = k;
                                    job.r = r;
                                    job.size = size;
                                    job.trail.push(format!("t{t}:config {}({k},{r},{size})", api.name()));
                                }
                                pool_new_round(&mut job, uni);
                            }
                        }
                        Ok(())
                    });
                    let failed = match res {
                        Ok(Ok(())) => None,
                        Ok(Err(m)) => Some(("C16:moved-object-wrong-result".to_string(), m)),
                        Err(p) => Some((format!("C16:moved-object:{}", crate::util::panic_sig(&p)), p)),
                    };
                    if let Some((sig, m)) = failed {
                        let tail: Vec<String> = job.trail.iter().rev().take(14).rev().cloned().collect();
                        out.lock().unwrap().violate(sig, format!("{} k={} r={} size={}: {m}; steps: {}", job.api.name(), job.k, job.r, job.size, tail.join(" ")));
                        job.rounds_left = 0;
                    }
                    if job.rounds_left == 0 {
                        if live.fetch_sub(1, Ordering::SeqCst) == 1 {
                            for tx in &txs {
                                let _ = tx.send(Msg::Stop);
                            }
                        }
                        continue;
                    }
                    // move on: another thread (never stay)
                    let mut to = job.rng.below(txs.len());
                    if to == t {
                        to = (to + 1) % txs.len();
                    }
                    moves.fetch_add(1, Ordering::Relaxed);
                    if txs[to].send(Msg::Job(job)).is_err() {
                        live.fetch_sub(1, Ordering::SeqCst);
                    }
                }
            });
        }
    });
    let mut o = out.into_inner().unwrap();
    o.evals = decodes.load(Ordering::Relaxed);
    o.add("decoder moves between threads (mid-round or between rounds)", moves.load(Ordering::Relaxed));
    o.add("rounds verified on moved decoders / encoders", decodes.load(Ordering::Relaxed));
    o.tag("migration-pool");
    for i in 0..decodes.load(Ordering::Relaxed).min(100_000) {
        o.nontrivial.push(mix(0x3160, i));
    }
    o.sample = Some(jobj(&[(
        "migration_pool",
        jstr(&format!(
            "{} decoders x {rounds} rounds hopping over {threads} threads; universe {:?}; received-set masks {:?}",
            per_thread * threads,
            uni.configs.iter().map(|c| format!("{}({},{})", c.0.name(), c.1, c.2)).collect::<Vec<_>>(),
            uni.masks
        )),
    )]));
    agg.lock().unwrap().absorb("migration", 0, o);
}

// ======================================================================
// Lifecycle churn (in-process stage): many threads construct, grow, shrink,
// hand over and drop their own encoders and decoders as fast as they can -
// working spaces from a few KiB to 8 MiB - with a checked round trip now and
// then. Whatever the objects share behind the scenes (tables, caches, pools)
// is hit by construction and destruction from all threads at once. A panic or
// an error on any thread, or a wrong result, is a violation; the step cap is
// logical, the time cap only ends the stage early.

fn churn_config(rng: &mut Rng) -> (crate::codec::Api, usize, usize, usize) {
    use crate::codec::{Api, EngineKind, RateKind};
    let (k, r) = *rng.pick(&[(1usize, 1usize), (2, 3), (8, 8), (16, 16), (64, 64), (100, 30), (30, 100), (200, 200), (1000, 24), (8000, 200), (300, 9000), (12000, 4000), (8000, 200)]);
    let api = match rng.below(4) {
        0 => Api::Wrapper,
        1 => Api::Rate(RateKind::High, *rng.pick(&EngineKind::fast())),
        2 => Api::Rate(RateKind::Low, *rng.pick(&EngineKind::fast())),
        _ => Api::Rate(RateKind::Default, EngineKind::Default),
    };
    // decoder working space = positions x shard size, log-uniform in 4 KiB .. 8 MiB
    let positions = (k + r).next_power_of_two();
    let space = 1usize << rng.range(12, 23);
    let size = ((space / positions) & !1).clamp(2, 1 << 20) + 2 * rng.below(3);
    (api, k, r, size)
}

fn churn_stage(cfg: &RunCfg, agg: &Mutex<Agg>) {
    use crate::codec;
    if !cfg.stage_enabled("churn") || (cfg.only_case.is_some() && cfg.only_stage.as_deref() != Some("churn")) {
        return;
    }
    let threads = 12usize;
    let iters = crate::count(cfg, 2500, 30_000) as usize;
    let deadline = Instant::now() + Duration::from_secs(if cfg.thorough { 120 } else { 25 });
    let out = Mutex::new(CaseOut::default());
    let (made, resets, dropped, rounds) = (AtomicU64::new(0), AtomicU64::new(0), AtomicU64::new(0), AtomicU64::new(0));
    let big = AtomicU64::new(0);
    let stop = std::sync::atomic::AtomicBool::new(false);
    let start = Barrier::new(threads);
    let base = mix(cfg.seed, 0xC4024);
    std::thread::scope(|s| {
        for t in 0..threads {
            let (out, made, resets, dropped, rounds, big, stop, start) = (&out, &made, &resets, &dropped, &rounds, &big, &stop, &start);
            s.spawn(move || {
                let mut rng = Rng::new(mix(base, t as u64));
                type Cfg = (codec::Api, usize, usize, usize);
                let mut enc: Option<(Box<dyn codec::DynEnc + Send>, Cfg)> = None;
                let mut dec: Option<(Box<dyn codec::DynDec + Send>, Cfg)> = None;
                let mut trail: Vec<String> = Vec::new();
                start.wait();
                for it in 0..iters {
                    if stop.load(Ordering::Relaxed) || Instant::now() > deadline {
                        break;
                    }
                    let res = crate::util::guarded(|| -> Result<(), String> {
                        let c = churn_config(&mut rng);
                        let (api, k, r, size) = c;
                        if (k + r).next_power_of_two() * size >= 1 << 20 {
                            big.fetch_add(1, Ordering::Relaxed);
                        }
                        let op = rng.below(7);
                        trail.push(format!("{}:{}({k},{r},{size})", ["new-enc", "new-dec", "reset-enc", "reset-dec", "drop", "handover-dec", "handover-enc"][op], api.name()));
                        match op {
                            0 => {
                                enc = Some((codec::make_enc(api, k, r, size, None).map_err(|e| format!("new: {e:?}"))?, c));
                                made.fetch_add(1, Ordering::Relaxed);
                            }
                            1 => {
                                dec = Some((codec::make_dec(api, k, r, size, None).map_err(|e| format!("new: {e:?}"))?, c));
                                made.fetch_add(1, Ordering::Relaxed);
                            }
                            2 | 3 => {
                                // reset keeps the object's API; take a configuration it supports
                                if op == 2 {
                                    if let Some((e, ec)) = enc.as_mut() {
                                        if let codec::Api::Rate(rate, _) = ec.0 {
                                            if !crate::gen::rate_ok(rate, k, r) {
                                                return Ok(());
                                            }
                                        }
                                        e.reset(k, r, size).map_err(|e| format!("reset: {e:?}"))?;
                                        *ec = (ec.0, k, r, size);
                                        resets.fetch_add(1, Ordering::Relaxed);
                                    }
                                } else if let Some((d, dc)) = dec.as_mut() {
                                    if let codec::Api::Rate(rate, _) = dc.0 {
                                        if !crate::gen::rate_ok(rate, k, r) {
                                            return Ok(());
                                        }
                                    }
                                    d.reset(k, r, size).map_err(|e| format!("reset: {e:?}"))?;
                                    *dc = (dc.0, k, r, size);
                                    resets.fetch_add(1, Ordering::Relaxed);
                                }
                            }
                            4 => {
                                if rng.chance(1, 2) {
                                    enc = None;
                                } else {
                                    dec = None;
                                }
                                dropped.fetch_add(1, Ordering::Relaxed);
                            }
                            5 => {
                                let work = dec.take().and_then(|(d, _)| d.into_work());
                                dec = Some((codec::make_dec(api, k, r, size, work).map_err(|e| format!("new with work: {e:?}"))?, c));
                                made.fetch_add(1, Ordering::Relaxed);
                            }
                            _ => {
                                let work = enc.take().and_then(|(e, _)| e.into_work());
                                enc = Some((codec::make_enc(api, k, r, size, work).map_err(|e| format!("new with work: {e:?}"))?, c));
                                made.fetch_add(1, Ordering::Relaxed);
                            }
                        }
                        // a checked round trip with the objects as they are
                        if it % 8 == 7 {
                            if let (Some((e, ec)), Some((d, dc))) = (enc.as_mut(), dec.as_mut()) {
                                let (_, k, r, size) = *ec;
                                let originals: Vec<Vec<u8>> = (0..k).map(|_| rng.bytes(size)).collect();
                                for o in &originals {
                                    e.add(o).map_err(|e| format!("add: {e:?}"))?;
                                }
                                let recovery = e.encode_obs(&[]).map_err(|e| format!("encode: {e:?}"))?.iter;
                                // the churned decoder is reset to the encoder's configuration if
                                // it is of the encoder's kind (same rate, so the same code);
                                // otherwise a decoder of that kind takes over its working space
                                if dc.0 == ec.0 {
                                    d.reset(k, r, size).map_err(|e| format!("reset: {e:?}"))?;
                                } else {
                                    let old = std::mem::replace(d, codec::make_dec(codec::Api::Wrapper, 1, 1, 2, None).map_err(|e| format!("new: {e:?}"))?);
                                    *d = codec::make_dec(ec.0, k, r, size, old.into_work()).map_err(|e| format!("new with work: {e:?}"))?;
                                }
                                *dc = *ec;
                                let (oi, ri, _) = crate::gen::received_set(&mut rng, k, r);
                                let order = crate::gen::add_order(&mut rng, &oi, &ri, true);
                                let got = codec::decode_round(d.as_mut(), &order, &originals, &recovery, &[]).map_err(|e| format!("decode: {e:?}"))?;
                                if got.iter != crate::mon_c01::expected(&originals, &oi) {
                                    return Err("round trip on churned objects restores wrong shards".into());
                                }
                                rounds.fetch_add(1, Ordering::Relaxed);
                                trail.push("round-ok".into());
                            }
                        }
                        Ok(())
                    });
                    let failed = match res {
                        Ok(Ok(())) => None,
                        Ok(Err(m)) => Some(("C16:churn:error-or-wrong-result".to_string(), m)),
                        Err(p) => Some((format!("C16:churn:{}", crate::util::panic_sig(&p)), p)),
                    };
                    if let Some((sig, m)) = failed {
                        let tail: Vec<String> = trail.iter().rev().take(10).rev().cloned().collect();
                        out.lock().unwrap().violate(sig, format!("thread {t} of {threads}, step {it}: {m}; last steps of this thread: {}", tail.join(" ")));
                        stop.store(true, Ordering::Relaxed);
                        // the objects may be in any state after a panic
                        enc = None;
                        dec = None;
                        break;
                    }
                    if trail.len() > 64 {
                        trail.drain(..32);
                    }
                }
            });
        }
    });
    let mut o = out.into_inner().unwrap();
    o.evals = made.load(Ordering::Relaxed) + resets.load(Ordering::Relaxed) + rounds.load(Ordering::Relaxed);
    o.add("churn: objects constructed concurrently (with and without handed-over working space)", made.load(Ordering::Relaxed));
    o.add("churn: resets", resets.load(Ordering::Relaxed));
    o.add("churn: drops", dropped.load(Ordering::Relaxed));
    o.add("churn: steps with a working space of 1 MiB or more", big.load(Ordering::Relaxed));
    o.add("churn: checked round trips", rounds.load(Ordering::Relaxed));
    o.tag("lifecycle-churn");
    for i in 0..made.load(Ordering::Relaxed).min(100_000) {
        o.nontrivial.push(mix(0x3161, i));
    }
    o.sample = Some(jobj(&[("lifecycle_churn", jstr(&format!("{threads} threads x up to {iters} steps (new / reset / drop / hand-over / checked round trip)")))]));
    agg.lock().unwrap().absorb("churn", 0, o);
}

pub fn run(cfg: &RunCfg, agg: &Mutex<Agg>) {
    migration_stage(cfg, agg);
    churn_stage(cfg, agg);
    if !cfg.stage_enabled("schedules") {
        return;
    }
    if let Some(cs) = cfg.only_case {
        // replay of one schedule
        run_schedules(cfg, agg, &[cs]);
        return;
    }
    let n = crate::count(cfg, 120, 2400);
    let base = mix(cfg.seed, 0xC16);
    let seeds: Vec<u64> = (0..n).map(|i| mix(base, i)).collect();
    run_schedules(cfg, agg, &seeds);
}

fn run_schedules(cfg: &RunCfg, agg: &Mutex<Agg>, seeds: &[u64]) {
    let exe = std::env::current_exe().expect("current_exe");
    // Sequential reference digests, computed up-front by ONE helper thread
    // (watched: a role that does not even terminate when it runs alone is a
    // deadlock in the trivial schedule, and must not take the monitor with it).
    let (tx, rx) = mpsc::channel::<(usize, Vec<u64>)>();
    let seeds_ref: Vec<u64> = seeds.to_vec();
    let current = Arc::new(AtomicU64::new(0));
    let cur = current.clone();
    std::thread::spawn(move || {
        for (i, s) in seeds_ref.iter().enumerate() {
            let mut v = Vec::new();
            for (kind, rs, _) in schedule(*s) {
                cur.store(kind as u64, Ordering::SeqCst);
                v.push(role(kind, rs, false));
            }
            if tx.send((i, v)).is_err() {
                return;
            }
        }
    });
    let mut reference: Vec<Vec<u64>> = Vec::with_capacity(seeds.len());
    while reference.len() < seeds.len() {
        match rx.recv_timeout(Duration::from_secs(60)) {
            Ok((_, v)) => reference.push(v),
            Err(_) => {
                let kind = current.load(Ordering::SeqCst) as usize;
                let a = proc_all_sleeping(std::process::id());
                std::thread::sleep(Duration::from_secs(1));
                let b = proc_all_sleeping(std::process::id());
                let mut out = CaseOut::default();
                match (a, b) {
                    (Some((true, c1)), Some((true, c2))) if c1 == c2 => out.violate(
                        format!("C16:deadlock:sequential:{}", ROLE_NAMES[kind.min(N_ROLES - 1)]),
                        format!("role {} run alone on one thread made no progress for 60 s, every thread of the process asleep and no CPU time consumed over 1 s", ROLE_NAMES[kind.min(N_ROLES - 1)]),
                    ),
                    _ => out.inconclusive.push(format!("sequential reference of role {} did not finish within 60 s (still running)", ROLE_NAMES[kind.min(N_ROLES - 1)])),
                }
                agg.lock().unwrap().absorb("schedules", seeds[reference.len()], out);
                return;
            }
        }
    }
    let next = AtomicU64::new(0);
    let deadlocks = AtomicU64::new(0);
    // build time of each table, as timed by the children so far (ns, last few)
    let build_ns: Mutex<[Vec<u64>; 5]> = Mutex::new(Default::default());
    let signatures: Mutex<BTreeSet<String>> = Mutex::new(BTreeSet::new());
    let first_initialisers: Mutex<BTreeSet<String>> = Mutex::new(BTreeSet::new());
    // a child uses up to 16 threads itself; keep a few children in flight so
    // that the machine is loaded (more schedule diversity) but not swamped
    // (bursts spin: more than two children at a time would starve each other)
    let parallel = (cfg.threads / 8).max(1);
    std::thread::scope(|s| {
        for _ in 0..parallel {
            s.spawn(|| loop {
                let i = next.fetch_add(1, Ordering::Relaxed) as usize;
                // three confirmed deadlocks are enough: every further one costs
                // a full watchdog period
                if i >= seeds.len() || Instant::now() > cfg.deadline || deadlocks.load(Ordering::Relaxed) >= 3 {
                    break;
                }
                let seed = seeds[i];
                let mut out = CaseOut::default();
                let sched = schedule(seed);
                let desc = format!(
                    "schedule {seed}: {} threads, roles {:?}",
                    sched.len(),
                    sched.iter().map(|s| ROLE_NAMES[s.0]).collect::<Vec<_>>()
                );
                let hints: Vec<String> = build_ns
                    .lock()
                    .unwrap()
                    .iter()
                    .map(|v| {
                        // median of the last measurements
                        let mut w: Vec<u64> = v.iter().rev().take(9).copied().collect();
                        w.sort_unstable();
                        w.get(w.len() / 2).copied().unwrap_or(0).to_string()
                    })
                    .collect();
                let mut child = match Command::new(&exe)
                    .args(["C16CHILD", "--case", &seed.to_string()])
                    .env("RSMON_C16_BUILD_NS", hints.join(","))
                    .stdout(Stdio::piped())
                    .stderr(Stdio::piped())
                    .spawn()
                {
                    Ok(c) => c,
                    Err(e) => {
                        out.inconclusive.push(format!("cannot spawn child: {e}"));
                        agg.lock().unwrap().absorb("schedules", seed, out);
                        continue;
                    }
                };
                // watchdog: >= 100x the normal run time
                let t0 = Instant::now();
                let mut status = None;
                while t0.elapsed() < Duration::from_secs(90) {
                    match child.try_wait() {
                        Ok(Some(st)) => {
                            status = Some(st);
                            break;
                        }
                        Ok(None) => std::thread::sleep(Duration::from_millis(5)),
                        Err(_) => break,
                    }
                }
                let Some(status) = status else {
                    // suspect: decide between deadlock and mere slowness
                    let a = proc_all_sleeping(child.id());
                    std::thread::sleep(Duration::from_secs(1));
                    let b = proc_all_sleeping(child.id());
                    let _ = child.kill();
                    let _ = child.wait();
                    match (a, b) {
                        (Some((true, c1)), Some((true, c2))) if c1 == c2 => {
                            deadlocks.fetch_add(1, Ordering::Relaxed);
                            out.violate(
                            "C16:deadlock",
                            format!("{desc}: no progress for 90 s, every thread sleeping and no CPU time consumed over 1 s"),
                        )}
                        _ => out.inconclusive.push(format!("{desc}: watchdog expired but threads were still running (slow, not deadlocked)")),
                    }
                    agg.lock().unwrap().absorb("schedules", seed, out);
                    continue;
                };
                let mut stdout = String::new();
                let mut stderr = String::new();
                if let Some(mut o) = child.stdout.take() {
                    let _ = o.read_to_string(&mut stdout);
                }
                if let Some(mut e) = child.stderr.take() {
                    let _ = e.read_to_string(&mut stderr);
                }
                if !status.success() {
                    use std::os::unix::process::ExitStatusExt;
                    match status.signal() {
                        Some(sig @ (4 | 7 | 8 | 11)) => out.violate(
                            format!("C16:crash:signal{sig}"),
                            format!("{desc}: child died with signal {sig}; stderr {}", &stderr[..stderr.len().min(400)]),
                        ),
                        _ => out.inconclusive.push(format!("{desc}: child exited with {status}; stderr {}", &stderr[..stderr.len().min(300)])),
                    }
                }
                let mut seen_roles = 0;
                for line in stdout.lines() {
                    let f: Vec<&str> = line.splitn(4, ' ').collect();
                    match f[0] {
                        "role" if f.len() == 4 => {
                            let idx: usize = f[1].parse().unwrap_or(0);
                            let d: u64 = f[3].parse().unwrap_or(0);
                            let (kind, _, _) = sched[idx];
                            let want = reference[i][idx];
                            out.evals += 1;
                            seen_roles += 1;
                            if d != want {
                                out.violate(
                                    format!("C16:result-differs-from-sequential:{}", ROLE_NAMES[kind]),
                                    format!("{desc}: thread {idx} ({}) produced digest {d}, sequential use gives {want}", ROLE_NAMES[kind]),
                                );
                            }
                            out.tag(format!("role:{}", ROLE_NAMES[kind]));
                        }
                        "panic" => out.violate(
                            format!("C16:panic:{}", f.get(2).and_then(|k| k.parse::<usize>().ok()).map_or("?", |k| ROLE_NAMES[k])),
                            format!("{desc}: {line}"),
                        ),
                        "build_ns" => {
                            let mut b = build_ns.lock().unwrap();
                            for (t, v) in line["build_ns ".len()..].split(',').enumerate().take(5) {
                                if let Ok(ns) = v.parse::<u64>() {
                                    // only initialisations seen from start to end, within reason
                                    if ns > 0 && ns < 50_000_000 {
                                        b[t].push(ns);
                                    }
                                }
                            }
                        }
                        "events" => {
                            let sig = check_events(line.strip_prefix("events ").unwrap_or(""), &mut out, &desc);
                            if let Some(first) = sig.get(0..2) {
                                first_initialisers.lock().unwrap().insert(first.to_string());
                            }
                            signatures.lock().unwrap().insert(sig);
                        }
                        _ => {}
                    }
                }
                if status.success() && seen_roles != sched.len() {
                    out.inconclusive.push(format!("{desc}: child reported {seen_roles} of {} roles", sched.len()));
                }
                out.tag(format!("threads:{}", sched.len()));
                out.tag(match burst_mode(seed) {
                    Burst::Staggered => "schedule:staggered".to_string(),
                    Burst::Random { .. } => "schedule:burst".to_string(),
                    Burst::Aimed { table, .. } => format!("schedule:burst-aimed-at-end-of-{}", T_NAMES[table as usize]),
                });
                if sched.len() >= 2 {
                    out.nontrivial_key(&desc);
                }
                out.sample = Some(jobj(&[("schedule", jstr(&desc))]));
                agg.lock().unwrap().absorb("schedules", seed, out);
            });
        }
    });
    let sigs = signatures.into_inner().unwrap();
    let mut a = agg.lock().unwrap();
    a.extra.push(("obs_distinct_init_interleavings".into(), sigs.len().to_string()));
    a.extra.push((
        "obs_init_interleaving_examples".into(),
        crate::util::jlist(&sigs.iter().take(6).map(|s| jstr(s)).collect::<Vec<_>>()),
    ));
    if hooks::armed() && sigs.len() < 2 && seeds.len() > 10 {
        a.inconclusive.push(format!("low diversity: only {} distinct table-initialisation interleavings observed", sigs.len()));
    }
}

/// Sequential reference in the output format of `child` (for the TSan / Miri
/// stages, whose children are started by check.py).
pub fn reference(seed: u64) {
    for (i, (kind, role_seed, _)) in schedule(seed).iter().enumerate() {
        println!("role {i} {kind} {}", role(*kind, *role_seed, false));
    }
}
