//! C04 - every even shard size works and symbol slots never interact.
//! Oracle: slot decomposition - coding S-byte shards must equal coding every
//! 16-bit slot on its own as a 2-byte shard, with the documented byte placement.

use std::sync::Mutex;

use crate::codec::{self, Api, EngineKind};
use crate::gen::{self, Class};
use crate::gf;
use crate::hooks::Poison;
use crate::util::{jobj, jstr, run_cases, Agg, CaseOut, Rng, RunCfg};

pub fn run(cfg: &RunCfg, agg: &Mutex<Agg>) {
    run_cases(agg, cfg, "slots", crate::count(cfg, 4000, 100_000), |cs, out| {
        slot_case(&mut Rng::new(cs), out, false);
    });
    // several rounds with changing sizes on one pair of objects
    run_cases(agg, cfg, "slots-multiround", crate::count(cfg, 800, 20_000), |cs, out| {
        slot_case(&mut Rng::new(cs), out, true);
    });
}

fn pick_size(rng: &mut Rng) -> usize {
    match rng.below(10) {
        0..=5 => 2 * rng.range(1, 65), // 2..=130 exhaustively over cases
        6 => *rng.pick(&[190usize, 254, 256, 258, 1022, 1026]),
        7 => *rng.pick(&[62usize, 64, 66, 126, 128, 130]),
        _ => 2 * rng.range(1, 700),
    }
}

fn interesting_slots(rng: &mut Rng, size: usize) -> Vec<usize> {
    let n = gf::slots(size);
    let full = size / 64;
    let mut v = vec![0, n - 1];
    if full > 0 {
        v.push(full * 32 - 1); // last slot of the last full block
        v.push(31.min(n - 1));
        if n > full * 32 {
            v.push(full * 32); // first slot of the tail block
        }
    }
    for _ in 0..3 {
        v.push(rng.below(n));
    }
    v.sort_unstable();
    v.dedup();
    v
}

fn slot_case(rng: &mut Rng, out: &mut CaseOut, multiround: bool) {
    let rate = gen::rate(rng);
    let class = match rng.below(10) {
        0..=4 => Class::Tiny,
        5..=7 => Class::Small,
        _ => Class::Edge,
    };
    let (mut k, mut r) = gen::config(rng, class, rate);
    if k.max(r) > 600 {
        // keep per-slot re-encoding affordable
        return;
    }
    let eng = *rng.pick(&EngineKind::all());
    let api = if rate == codec::RateKind::Default && rng.chance(1, 6) {
        Api::Wrapper
    } else {
        Api::Rate(rate, eng)
    };
    let slot_api = Api::Rate(rate, *rng.pick(&[EngineKind::NoSimd, EngineKind::Naive]));
    // poison is armed throughout: padding lanes and the unused half of the
    // final block then hold junk instead of the zeros of a fresh buffer
    let fills0 = crate::hooks::poison_fills();
    let _p = Poison::new(true, rng.next_u64());

    let rounds = if multiround { rng.range(2, 4) } else { 1 };
    let first_size = pick_size(rng);
    let mut enc = match codec::make_enc(api, k, r, first_size, None) {
        Ok(e) => e,
        Err(e) => {
            out.violate("C04:new-failed", format!("k={k} r={r} size={first_size}: {e}"));
            return;
        }
    };
    let mut dec = match codec::make_dec(api, k, r, first_size, None) {
        Ok(d) => d,
        Err(e) => {
            out.violate("C04:new-failed", format!("k={k} r={r} size={first_size}: {e}"));
            return;
        }
    };
    let mut size = first_size;
    for round in 0..rounds {
        if round > 0 {
            if rng.chance(1, 2) {
                // same size again, no reset: dropping the result started the new round
                out.tag("round-after-implicit-reset");
            } else {
                let prev = size;
                size = pick_size(rng);
                // a third of the resets: the same payload in another shape
                // (f times the shards of a f-th of the blocks, or the reverse)
                if rng.chance(1, 3) {
                    if let Some((k2, r2, s2)) = gen::reshape(rng, rate, k, r, prev) {
                        if k2.max(r2) <= 600 {
                            (k, r, size) = (k2, r2, s2);
                            out.tag("reset-reshapes");
                        }
                    }
                }
                if let Err(e) = enc.reset(k, r, size).and(dec.reset(k, r, size)) {
                    out.violate("C04:reset-failed", format!("k={k} r={r} size={size}: {e}"));
                    return;
                }
            }
        }
        let desc = format!(
            "k={k} r={r} rate={} size={size} api={} round={round}",
            rate.name(),
            api.name()
        );
        let originals = gen::originals(rng, k, size);
        let mut fail = None;
        for o in &originals {
            if let Err(e) = enc.add(o) {
                fail = Some(e);
            }
        }
        let recovery = match (fail, enc.encode_obs(&[0, r - 1])) {
            (None, Ok(obs)) => {
                for p in &obs.probes {
                    if p.as_ref().map(Vec::len) != Some(size) {
                        out.violate("C04:recovery-length", format!("{desc}: recovery(i) has wrong length"));
                    }
                }
                obs.iter
            }
            (f, e) => {
                out.violate("C04:encode-failed", format!("{desc}: {f:?} {:?}", e.err()));
                return;
            }
        };
        if recovery.len() != r || recovery.iter().any(|s| s.len() != size) {
            out.violate(
                "C04:recovery-length",
                format!("{desc}: lengths {:?}", recovery.iter().map(Vec::len).take(4).collect::<Vec<_>>()),
            );
            return;
        }
        // decode with the reused decoder
        let (orig_idx, rec_idx, _) = gen::received_set(rng, k, r);
        let order = gen::add_order(rng, &orig_idx, &rec_idx, true);
        let restored = match codec::decode_round(dec.as_mut(), &order, &originals, &recovery, &[]) {
            Ok(o) => o.iter,
            Err(e) => {
                out.violate("C04:decode-failed", format!("{desc}: {e}"));
                return;
            }
        };
        if restored.iter().any(|(_, s)| s.len() != size) {
            out.violate("C04:restored-length", format!("{desc}: restored shard of wrong length"));
        }
        // slot decomposition
        for q in interesting_slots(rng, size) {
            let col: Vec<Vec<u8>> = originals
                .iter()
                .map(|o| gf::from_symbols(&[gf::get_symbol(o, q)]))
                .collect();
            out.evals += 1;
            match codec::encode_fresh(slot_api, k, r, 2, &col) {
                Err(e) => out.violate("C04:slot-encode-failed", format!("{desc} slot {q}: {e}")),
                Ok(rec2) => {
                    for j in 0..r {
                        let want = gf::get_symbol(&rec2[j], 0);
                        let got = gf::get_symbol(&recovery[j], q);
                        if got != want {
                            out.violate(
                                "C04:slot-mismatch-encode",
                                format!(
                                    "{desc}: recovery {j} slot {q} is {got:#06x}, coding that slot alone gives {want:#06x}"
                                ),
                            );
                            break;
                        }
                    }
                    // decode the slot alone from the same received set
                    let rec_col: Vec<Vec<u8>> = recovery
                        .iter()
                        .map(|s| gf::from_symbols(&[gf::get_symbol(s, q)]))
                        .collect();
                    let got = codec::make_dec(slot_api, k, r, 2, None).and_then(|mut d| {
                        codec::decode_round(d.as_mut(), &order, &col, &rec_col, &[])
                    });
                    match got {
                        Err(e) => out.violate("C04:slot-decode-failed", format!("{desc} slot {q}: {e}")),
                        Ok(obs2) => {
                            for ((i, full), (i2, two)) in restored.iter().zip(&obs2.iter) {
                                if i != i2 || gf::get_symbol(full, q) != gf::get_symbol(two, 0) {
                                    out.violate(
                                        "C04:slot-mismatch-decode",
                                        format!("{desc}: restored original {i} slot {q} differs from decoding that slot alone"),
                                    );
                                    break;
                                }
                            }
                        }
                    }
                }
            }
        }
        out.tag(format!("size:{}", gen::size_class(size)));
        out.tag(format!("rate:{}", rate.name()));
        out.tag(format!("api:{}", api.name()));
        out.tag(format!("tail-bytes:{}", size % 64));
        out.nontrivial_key(&format!("{k}/{r}/{}/{size}/{}", rate.name(), api.name()));
        out.sample = Some(jobj(&[("config", jstr(&desc))]));
    }
    out.add("working-memory poison fills (hook H1)", crate::hooks::poison_fills() - fills0);
}
