#!/usr/bin/env python3
"""Driver for the runtime monitors of reed-solomon-simd (see DESIGN.md).

  check.py <PROPERTY> [--tier quick|thorough] [--seed N] [--only-stage a,b]
  check.py <PROPERTY> --replay <file>
  check.py --setup

Builds the harness against /repo's current working tree (the crate is a path
dependency, so cargo rebuilds whatever changed), runs the stages registered for
the property, decides a three-valued verdict, writes evidence/<id>.json and
replays/<...>.json, prints VIOLATION / KNOWN-FINDING lines.

exit 0: held on everything explored (known findings are listed, not failed)
exit 1: at least one violation that known_findings.json does not list
exit 2: the check itself is broken or inconclusive only (no VIOLATION line)
"""
import hashlib
import json
import os
import re
import subprocess
import sys
import time

ROOT = os.path.dirname(os.path.abspath(__file__))
HARNESS = os.path.join(ROOT, "harness")
TARGET = os.path.join(ROOT, "target")
EVIDENCE = os.path.join(ROOT, "evidence")
REPLAYS = os.path.join(ROOT, "replays")
LOGS = os.path.join(ROOT, "logs")
REPO = os.environ.get("RSMON_REPO", "/repo")

sys.path.insert(0, ROOT)
from stages import PROPERTIES, RULES, ASSUMPTIONS  # noqa: E402

ENV = dict(os.environ)
ENV.update({
    "CARGO_NET_OFFLINE": "true",
    "CARGO_TARGET_DIR": TARGET,
    "CARGO_TERM_COLOR": "never",
})
# never inherit flags meant for something else
for k in ("RUSTFLAGS", "CARGO_ENCODED_RUSTFLAGS", "CARGO_BUILD_TARGET"):
    ENV.pop(k, None)


def log(msg):
    print(f"[check] {msg}", file=sys.stderr, flush=True)


# ----------------------------------------------------------------------
# builds

class BuildError(Exception):
    pass


_built = {}


def cargo(args, env_extra=None, toolchain=None, timeout=3600):
    env = dict(ENV)
    if env_extra:
        env.update(env_extra)
    cmd = ["cargo"] + ([f"+{toolchain}"] if toolchain else []) + args
    t0 = time.time()
    p = subprocess.run(cmd, cwd=HARNESS, env=env, stdout=subprocess.PIPE,
                       stderr=subprocess.STDOUT, text=True, timeout=timeout)
    log(f"{' '.join(cmd)} -> {p.returncode} in {time.time() - t0:.1f}s")
    return p


def build(variant):
    """Returns (path of rsmon binary, list of inconclusive notes)."""
    if variant in _built:
        return _built[variant]
    notes = []
    feats = ["--features", "hooks,neon-port", "--no-default-features"]
    feats_noneon = ["--features", "hooks", "--no-default-features"]
    feats_nohooks = ["--features", "neon-port", "--no-default-features"]
    if variant == "release":
        base, env, tc, path = ["build", "--release"], None, None, "release/rsmon"
    elif variant == "checked":
        base, env, tc, path = ["build", "--profile", "checked"], None, None, "checked/rsmon"
    elif variant == "release-nohooks":
        base, env, tc, path = ["build", "--release", "--target-dir", os.path.join(TARGET, "nohooks")], None, None, "nohooks/release/rsmon"
        feats = feats_nohooks
        feats_noneon = ["--no-default-features"]
    elif variant == "asan":
        base = ["build", "--release", "--target", "x86_64-unknown-linux-gnu",
                "--target-dir", os.path.join(TARGET, "asan")]
        env = {"RUSTFLAGS": "-Zsanitizer=address -Cforce-frame-pointers=yes"}
        tc, path = "nightly", "asan/x86_64-unknown-linux-gnu/release/rsmon"
    elif variant == "tsan":
        base = ["build", "--release", "-Zbuild-std", "--target", "x86_64-unknown-linux-gnu",
                "--target-dir", os.path.join(TARGET, "tsan")]
        env = {"RUSTFLAGS": "-Zsanitizer=thread"}
        tc, path = "nightly", "tsan/x86_64-unknown-linux-gnu/release/rsmon"
        feats = feats_nohooks
        feats_noneon = ["--no-default-features"]
    else:
        raise BuildError(f"unknown build variant {variant}")
    p = cargo(base + feats, env, tc)
    if p.returncode != 0:
        # does it build without the Neon source port?
        p2 = cargo(base + feats_noneon, env, tc)
        if p2.returncode != 0:
            tail = "\n".join(p.stdout.splitlines()[-40:])
            raise BuildError(f"build variant {variant} failed:\n{tail}")
        notes.append("Neon source port did not compile on this tree: Neon sub-stages inconclusive")
    out = (os.path.join(TARGET, path), notes)
    _built[variant] = out
    return out


# ----------------------------------------------------------------------
# running one stage

FATAL_SIGNALS = {11: "SIGSEGV", 7: "SIGBUS", 4: "SIGILL", 8: "SIGFPE"}


def run_stage(prop, stage, tier, seed, idx):
    """stage: dict(name, build, args=[...], scale, budget, kind)
    Returns dict(result=json|None, violations=[...], inconclusive=[...])."""
    name = stage["name"]
    res = {"name": name, "result": None, "violations": [], "inconclusive": []}
    kind = stage.get("kind", "rsmon")
    if kind != "rsmon":
        import special
        return special.run(prop, stage, tier, seed, build, log)
    try:
        binary, notes = build(stage["build"])
    except BuildError as e:
        if stage["build"] in ("release", "checked"):
            raise
        res["inconclusive"].append(f"stage {name}: {str(e).splitlines()[0]}")
        return res
    res["inconclusive"] += [f"stage {name}: {n}" for n in notes]
    os.makedirs(LOGS, exist_ok=True)
    out = os.path.join(LOGS, f"{prop}-{tier}-{name}-{os.getpid()}.json")
    budget = stage.get("budget", 600 if tier == "quick" else 3600)
    cmd = stage.get("wrapper", []) + [binary, prop, "--tier", tier, "--seed", str(seed), "--out", out,
                                       "--budget", str(budget), "--scale", str(stage.get("scale", 1.0))]
    cmd += stage.get("args", [])
    env = dict(ENV)
    env.update(stage.get("env", {}))
    t0 = time.time()
    try:
        p = subprocess.run(cmd, cwd=ROOT, env=env, stdout=subprocess.PIPE, stderr=subprocess.PIPE,
                           text=True, timeout=budget * 3 + 120)
    except subprocess.TimeoutExpired:
        res["inconclusive"].append(f"stage {name}: watchdog expired after {budget * 3 + 120}s (inconclusive, not a violation)")
        return res
    wall = time.time() - t0
    log(f"{prop} stage {name}: exit {p.returncode} in {wall:.1f}s")
    san = sanitizer_reports(p.stderr, stage)
    for sig, detail in san:
        res["violations"].append({"sig": sig, "detail": detail, "stage": name, "rsmon_stage": None,
                                  "case_seed": None, "build": stage["build"]})
    if p.returncode != 0 and not san:
        if p.returncode < 0 and -p.returncode in FATAL_SIGNALS:
            signame = FATAL_SIGNALS[-p.returncode]
            res["violations"].append({
                "sig": f"{prop}:crash:{signame}", "stage": name, "rsmon_stage": None, "case_seed": None,
                "build": stage["build"],
                "detail": f"harness process died with {signame} in stage {name}; stderr tail: {p.stderr[-600:]}"})
        else:
            res["inconclusive"].append(
                f"stage {name}: harness exited with {p.returncode} (treated as inconclusive); stderr tail: {p.stderr[-400:]}")
        return res
    if os.path.exists(out):
        with open(out) as f:
            res["result"] = json.load(f)
        os.remove(out)
        for v in res["result"]["violations"]:
            res["violations"].append({"sig": v["sig"], "detail": v["detail"], "stage": name,
                                      "rsmon_stage": v["stage"], "case_seed": v["case_seed"],
                                      "build": stage["build"]})
        res["inconclusive"] += [f"stage {name}: {i}" for i in res["result"]["inconclusive"]]
    return res


def sanitizer_reports(stderr, stage):
    """(signature, detail) for every sanitizer / valgrind report in stderr."""
    reps = []
    if "ERROR: AddressSanitizer" in stderr:
        for m in re.finditer(r"ERROR: AddressSanitizer: ([a-z\-]+)(.*?)(?=\n==\d+==ERROR|\Z)", stderr, re.S):
            frames = re.findall(r"#\d+ 0x[0-9a-f]+ in (\S+)", m.group(2))
            first = next((f for f in frames if "reed_solomon_simd" in f or "rsmon" in f), frames[0] if frames else "?")
            reps.append((f"asan:{m.group(1)}:{first[:80]}", m.group(0)[:1500]))
    if "WARNING: ThreadSanitizer" in stderr:
        for m in re.finditer(r"WARNING: ThreadSanitizer: ([a-z \-]+)(.*?)(?=\n=+\n|\Z)", stderr, re.S):
            frames = re.findall(r"#\d+ (\S+)", m.group(2))
            first = next((f for f in frames if "reed_solomon_simd" in f), frames[0] if frames else "?")
            reps.append((f"tsan:{m.group(1).strip()}:{first[:80]}", m.group(0)[:1500]))
    if stage.get("valgrind"):
        for m in re.finditer(r"==\d+== (Invalid (?:read|write) of size \d+|Conditional jump or move depends on uninitialised value\(s\)|Use of uninitialised value of size \d+)(.*?)(?=\n==\d+== \n|\Z)", stderr, re.S):
            frames = re.findall(r"(?:at|by) 0x[0-9A-F]+: (\S+)", m.group(2))
            first = next((f for f in frames if "reed_solomon_simd" in f or "rsmon" in f), frames[0] if frames else "?")
            reps.append((f"valgrind:{m.group(1)}:{first[:80]}", m.group(0)[:1500]))
    return reps


# ----------------------------------------------------------------------
# verdict, evidence, replay

def load_known():
    p = os.path.join(ROOT, "known_findings.json")
    if not os.path.exists(p):
        return []
    with open(p) as f:
        return json.load(f).get("findings", [])


def write_replay(prop, tier, seed, v):
    os.makedirs(REPLAYS, exist_ok=True)
    h = hashlib.sha1((v["sig"] + str(v["case_seed"]) + v["stage"]).encode()).hexdigest()[:12]
    path = os.path.join(REPLAYS, f"{prop}-{h}.json")
    with open(path, "w") as f:
        json.dump({"property": prop, "tier": tier, "seed": seed, "signature": v["sig"], "detail": v["detail"],
                   "stage": v["stage"], "build": v["build"], "rsmon_stage": v["rsmon_stage"],
                   "case_seed": v["case_seed"],
                   "replay_cmd": f"python3 {os.path.join(ROOT, 'check.py')} {prop} --replay {path}"}, f, indent=1)
    return path


def decide(prop, tier, seed, stage_results, t0):
    known = [k for k in load_known() if k["property"] == prop]
    evaluations = 0
    distinct = 0
    tags = {}
    samples = []
    stages_info = []
    inconclusive = []
    all_v = []
    extra = {}
    for sr in stage_results:
        r = sr["result"]
        info = {"stage": sr["name"], "ran": r is not None}
        if r is not None:
            evaluations += r["evaluations"]
            distinct += r["distinct_nontrivial"]
            for k, v in r["tags"].items():
                tags[f"{sr['name']}/{k}" if len(stage_results) > 1 else k] = v
            samples += r["samples"][:4]
            info.update({"cases": r["cases"], "evaluations": r["evaluations"],
                         "distinct_nontrivial": r["distinct_nontrivial"], "wall_s": r["wall_s"],
                         "violations": r["violation_count"], "profile": r.get("profile"),
                         "hooks": r.get("hooks"), "engines": r.get("engines")})
            for k, v in r.items():
                if k.startswith("obs_"):
                    extra[f"{sr['name']}/{k}"] = v
        stages_info.append(info)
        inconclusive += sr["inconclusive"]
        all_v += sr["violations"]
    new_v, known_hit = [], {}
    for v in all_v:
        k = next((k for k in known if k["signature"] == v["sig"]), None)
        if k:
            known_hit.setdefault(k["signature"], k)
        else:
            new_v.append(v)
    lines = []
    for sig, k in known_hit.items():
        lines.append(f"KNOWN-FINDING: property={prop} {k['what']} [{sig}]")
    seen = set()
    for v in new_v:
        if v["sig"] in seen:
            continue
        seen.add(v["sig"])
        path = write_replay(prop, tier, seed, v)
        lines.append(f"VIOLATION property={prop} replay={path}")
        log(f"violation {v['sig']}: {v['detail'][:500]}")
    observed_nothing = evaluations == 0 or distinct < 2
    coverage = {
        "evaluations": evaluations,
        "distinct_nontrivial": distinct,
        "rule": RULES.get(prop, ""),
        "samples": samples[:12] if samples else [],
        "observed": tags,
        "stages": stages_info,
        "inconclusive": inconclusive,
        "violation_signatures": sorted(seen),
        "known_findings_hit": sorted(known_hit),
        "verdict": "violated" if new_v else ("inconclusive" if observed_nothing else "held on what was observed"),
    }
    coverage.update(extra)
    ev = {
        "property_id": prop,
        "tier": tier,
        "seed": seed,
        "level": "exploration",
        "coverage": coverage,
        "assumptions": ASSUMPTIONS.get(prop, []),
        "wall_s": round(time.time() - t0, 2),
        "violations": len(seen),
    }
    os.makedirs(EVIDENCE, exist_ok=True)
    with open(os.path.join(EVIDENCE, f"{prop}.json"), "w") as f:
        json.dump(ev, f, indent=1)
    for l in lines:
        print(l, flush=True)
    for i in inconclusive:
        print(f"INCONCLUSIVE: property={prop} {i}", flush=True)
    if new_v:
        return 1
    if observed_nothing:
        print(f"BROKEN-CHECK: property={prop} the monitors observed nothing "
              f"(evaluations={evaluations}, distinct_nontrivial={distinct})", flush=True)
        return 2
    print(f"HELD: property={prop} tier={tier} seed={seed} evaluations={evaluations} "
          f"distinct_nontrivial={distinct} stages={len(stage_results)} wall={time.time() - t0:.1f}s", flush=True)
    return 0


def replay(prop, path):
    with open(path) as f:
        rp = json.load(f)
    if rp.get("case_seed") is None:
        log("this violation came from a sanitizer / process-level stage; re-running that stage")
        stage = next(s for s in PROPERTIES[prop][rp["tier"]] if s["name"] == rp["stage"])
        sr = run_stage(prop, stage, rp["tier"], rp["seed"], 0)
        hit = [v for v in sr["violations"] if v["sig"] == rp["signature"]]
        for v in hit:
            print(f"VIOLATION property={prop} replay={path}")
            print(v["detail"])
        return 1 if hit else 0
    binary, _ = build(rp["build"])
    # same volume parameters as the stage that found it (enumerating and
    # pool-style stages depend on them)
    st = next((s for s in PROPERTIES[prop][rp["tier"]] if s["name"] == rp["stage"]), {})
    cmd = [binary, prop, "--tier", rp["tier"], "--seed", str(rp["seed"]), "--scale", str(st.get("scale", 1.0)),
           "--stage", rp["rsmon_stage"], "--case", str(rp["case_seed"])]
    p = subprocess.run(cmd, cwd=ROOT, env=ENV, stdout=subprocess.PIPE, stderr=subprocess.PIPE, text=True)
    sys.stderr.write(p.stderr)
    try:
        r = json.loads(p.stdout)
    except Exception:
        print(f"replay process exited with {p.returncode}")
        return 1 if p.returncode != 0 else 2
    if r["violations"]:
        print(f"VIOLATION property={prop} replay={path}")
        for v in r["violations"]:
            print(f"  {v['sig']}: {v['detail']}")
        return 1
    print("replayed case held")
    return 0


def main():
    args = sys.argv[1:]
    if args and args[0] == "--setup":
        for v in ("release", "checked"):
            build(v)
        return 0
    if not args or args[0] not in PROPERTIES:
        print(__doc__)
        return 2
    prop = args[0]
    tier = os.environ.get("VERIF_TIER", "quick")
    seed = int(os.environ.get("VERIF_SEED", "0") or 0)
    rp = None
    only = None
    i = 1
    while i < len(args):
        if args[i] == "--tier":
            tier = args[i + 1]
        elif args[i] == "--seed":
            seed = int(args[i + 1])
        elif args[i] == "--replay":
            rp = args[i + 1]
        elif args[i] == "--only-stage":
            only = args[i + 1].split(",")
        else:
            print(f"unknown argument {args[i]}")
            return 2
        i += 2
    try:
        if rp:
            return replay(prop, rp)
        t0 = time.time()
        results = []
        for idx, stage in enumerate(PROPERTIES[prop][tier]):
            if only and stage["name"] not in only:
                continue  # debugging aid: a subset of the tier's stages
            results.append(run_stage(prop, stage, tier, seed, idx))
        return decide(prop, tier, seed, results, t0)
    except BuildError as e:
        print(f"BROKEN-CHECK: property={prop} cannot build the harness against {REPO}: {e}", flush=True)
        return 2


if __name__ == "__main__":
    sys.exit(main())
