//! C03 - all engines bit-identical, primitive by primitive and end to end;
//! a primitive changes only the shards inside the range it was given.
//! Oracle: the Naive engine, on exactly the outputs the Engine contract
//! defines (see DESIGN.md, C03 (b)).

use std::sync::Mutex;

use reed_solomon_simd::engine::ShardsRefMut;

use crate::codec::{self, Api, EngineKind};
use crate::gen::{self, Class};
use crate::hooks::Poison;
use crate::util::{jobj, jstr, run_cases, run_indexed, Agg, CaseOut, Rng, RunCfg};

pub fn run(cfg: &RunCfg, agg: &Mutex<Agg>) {
    run_cases(agg, cfg, "fft-ifft", crate::count(cfg, 20_000, 400_000), |cs, out| {
        transform_case(&mut Rng::new(cs), out, 10);
    });
    run_cases(agg, cfg, "fft-ifft-big", crate::count(cfg, 60, 1500), |cs, out| {
        transform_case(&mut Rng::new(cs), out, 16);
    });
    // working sets of 64-160 MiB (where blocking / streaming strategies switch)
    run_cases(agg, cfg, "fft-ifft-huge", if cfg.thorough { 16 } else { 3 }, |cs, out| {
        let mut rng = Rng::new(cs);
        let p = huge_transform(&mut rng);
        transform_case_with(&mut rng, out, p, &EngineKind::fast());
    });
    // very long shards whose block count sits on a 16-bit boundary
    // (4 MiB = 65536 blocks): block counters, strides
    run_indexed(agg, cfg, "fft-ifft-long-shards", if cfg.thorough { 64 } else { 16 }, |i, out| {
        // the 16 combinations of (2 or 8 shards, fft / ifft, block count) come
        // first; offsets and data are random
        let mut rng = Rng::new(crate::util::mix(cfg.seed, i));
        let size = [2usize, 8][(i % 2) as usize];
        let p = TransformParams {
            inverse: (i / 2) % 2 == 1,
            shard_len_64: [65_535usize, 65_536, 65_537, 131_072][((i / 4) % 4) as usize],
            shard_count: size,
            pos: 0,
            size,
            truncated: size,
            skew_delta: if rng.chance(1, 4) { 0 } else { size * rng.range(1, 65536 / size - 1) },
        };
        transform_case_with(&mut rng, out, p, &EngineKind::fast());
    });
    // the case index fixes the multiplier: 65536 consecutive cases cover every log_m
    run_indexed(agg, cfg, "mul", crate::count(cfg, 20_000, 400_000), |i, out| {
        mul_case(&mut Rng::new(crate::util::mix(cfg.seed, i)), (i % 65536) as u16, out);
    });
    run_cases(agg, cfg, "eval-poly", crate::count(cfg, 100, 2000), |cs, out| {
        eval_poly_case(&mut Rng::new(cs), out);
    });
    run_cases(agg, cfg, "end-to-end", crate::count(cfg, 1500, 40_000), |cs, out| {
        e2e_case(&mut Rng::new(cs), out);
    });
}

#[derive(Clone, Debug)]
pub struct TransformParams {
    pub inverse: bool,
    pub shard_len_64: usize,
    pub shard_count: usize,
    pub pos: usize,
    pub size: usize,
    pub truncated: usize,
    pub skew_delta: usize,
}

pub fn gen_transform(rng: &mut Rng, max_log: u32) -> TransformParams {
    let inverse = rng.chance(1, 2);
    let shard_len_64 = *rng.pick(&[1usize, 1, 1, 2, 3, 5]);
    // size = 2^n, small sizes dominate
    let n = if max_log > 10 {
        rng.range(11, max_log as usize) as u32
    } else {
        let a = rng.below(max_log as usize + 1);
        let b = rng.below(max_log as usize + 1);
        a.min(b) as u32
    };
    let size = 1usize << n;
    // rarely: very long shards (beyond 1024 blocks, not a multiple of it)
    let shard_len_64 = if n <= 4 && rng.chance(1, 60) { *rng.pick(&[1025usize, 1030, 2049, 1024]) } else { shard_len_64 };
    let shard_len_64 = if n > 10 { 1 } else { shard_len_64 };
    let pos = match rng.below(4) {
        0 => 0,
        1 => size * rng.below(4),
        _ => rng.below(40),
    };
    let extra = rng.below(6);
    let shard_count = pos + size + extra;
    let truncated = match rng.below(8) {
        0 => size,
        1 => 1.min(size),
        2 => size - size.min(1),
        3 => 0,
        4 => (size / 2 + 1).min(size),
        5 => (size / 4 + 1).min(size),
        _ => rng.range(0, size),
    };
    let max_sd = 65536 - size;
    let skew_delta = match rng.below(7) {
        0 => 0,
        1 => (pos + size).min(max_sd),
        2 => max_sd,
        3 => (size * rng.below(65536 / size)).min(max_sd),
        4 => {
            // a layer's twiddle index (distance + skew_delta - 1) lands on a
            // sentinel entry of the skew table (index 2^j - 1) although
            // skew_delta is not zero
            let d = (size >> rng.below(n as usize + 1)).max(1);
            let lo = (d.trailing_zeros() as usize + 1).min(16);
            let j = rng.range(lo, 16);
            ((1usize << j) - d).min(max_sd)
        }
        _ => rng.range(0, max_sd),
    };
    TransformParams {
        inverse,
        shard_len_64,
        shard_count,
        pos,
        size,
        truncated,
        skew_delta,
    }
}

/// Turn a random block into one of the shapes random data never has. Besides
/// the plain ones (zero block, zero quarters, constant bytes, a short shard's
/// layout, a tiny alphabet) the two 32-byte halves (low and high bytes of the
/// 32 symbols) and the 16-byte quarters are put into the algebraic relations
/// that a wrong reduction confuses with "all zero": equal (xor, sub),
/// negated at every lane width (add), complementary bits (and) - combined
/// with the same quarters zeroed in both halves.
pub fn structure_block(rng: &mut Rng, b: &mut [u8; 64]) {
    match rng.below(10) {
        0 => *b = [0; 64],
        1 => b[..16].fill(0),
        2 => b[16..32].fill(0),
        3 => b[..32].fill(0),
        4 => b[32..].fill(0),
        5 => {
            let v = *rng.pick(&[0u8, 1, 0xff, 0x80]);
            b.fill(v);
        }
        6 => {
            // like a 2- or 4-byte shard: one or two symbols, rest padding
            let n = rng.range(1, 2);
            let (lo, hi) = (b[0], b[32]);
            let (lo1, hi1) = (b[1], b[33]);
            *b = [0; 64];
            b[0] = if rng.chance(1, 4) { 0 } else { lo };
            b[32] = hi;
            if n == 2 {
                b[1] = lo1;
                b[33] = hi1;
            }
        }
        7 => {
            for x in b.iter_mut() {
                *x &= 1;
            }
        }
        _ => {
            // relation between the quarters of each half
            match rng.below(4) {
                0 => {
                    let (q0, q2) = (b[..16].to_vec(), b[32..48].to_vec());
                    b[16..32].copy_from_slice(&q0);
                    b[48..].copy_from_slice(&q2);
                }
                1 => {
                    let w = *rng.pick(&[1usize, 2, 4, 8, 16]);
                    let (q0, q2) = (b[..16].to_vec(), b[32..48].to_vec());
                    negate_lanes(&q0, &mut b[16..32], w);
                    negate_lanes(&q2, &mut b[48..], w);
                }
                _ => {}
            }
            // relation between the halves
            let lo = b[..32].to_vec();
            match rng.below(5) {
                0 => b[32..].copy_from_slice(&lo),
                1 => {
                    let w = *rng.pick(&[1usize, 2, 4, 8, 16, 32]);
                    negate_lanes(&lo, &mut b[32..], w);
                }
                2 => {
                    for i in 0..32 {
                        b[32 + i] = !lo[i];
                    }
                }
                3 => {
                    // complementary bits: lo & hi == 0, both non-zero
                    let m = rng.next_u64() as u8;
                    for i in 0..32 {
                        b[i] &= m;
                        b[32 + i] &= !m;
                    }
                }
                _ => {}
            }
            // the same quarters zeroed in both halves (or independently)
            if rng.chance(1, 2) {
                let sym = rng.chance(2, 3);
                let z = rng.below(4);
                for q in 0..2 {
                    if z & 1 << q != 0 {
                        b[q * 16..(q + 1) * 16].fill(0);
                        if sym {
                            b[32 + q * 16..32 + (q + 1) * 16].fill(0);
                        }
                    }
                }
                if !sym {
                    let z2 = rng.below(4);
                    for q in 0..2 {
                        if z2 & 1 << q != 0 {
                            b[32 + q * 16..32 + (q + 1) * 16].fill(0);
                        }
                    }
                }
            }
        }
    }
}

/// dst = two's-complement negation of src in little-endian lanes of `w` bytes
fn negate_lanes(src: &[u8], dst: &mut [u8], w: usize) {
    for (s, d) in src.chunks(w).zip(dst.chunks_mut(w)) {
        let mut carry = 1u16;
        for (x, y) in s.iter().zip(d.iter_mut()) {
            let v = (!*x) as u16 + carry;
            *y = v as u8;
            carry = v >> 8;
        }
    }
}

pub fn gen_transform_input(rng: &mut Rng, p: &TransformParams) -> Vec<[u8; 64]> {
    let mut buf = vec![[0u8; 64]; p.shard_count * p.shard_len_64];
    // mostly uniformly random blocks; in a third of the cases structured ones
    // (zero blocks, zero half-lanes, zero low or high bytes, tiny alphabets,
    // short-shard layouts) which random data would never produce
    let structured = rng.chance(1, 3);
    for b in buf.iter_mut() {
        rng.fill(b);
        if structured {
            structure_block(rng, b);
        }
    }
    if p.inverse {
        // contract: inputs beyond truncated_size are zero
        for s in p.pos + p.truncated..p.pos + p.size {
            for c in &mut buf[s * p.shard_len_64..(s + 1) * p.shard_len_64] {
                *c = [0; 64];
            }
        }
    }
    buf
}

pub fn apply_transform(kind: EngineKind, p: &TransformParams, buf: &mut [[u8; 64]]) {
    let e = codec::dyn_engine(kind);
    let mut data = ShardsRefMut::new(p.shard_count, p.shard_len_64, buf);
    if p.inverse {
        e.ifft(&mut data, p.pos, p.size, p.truncated, p.skew_delta);
    } else {
        e.fft(&mut data, p.pos, p.size, p.truncated, p.skew_delta);
    }
}

/// 64-byte blocks that start `off` bytes into an allocation: `[u8; 64]` has
/// alignment 1, so shard storage need not be aligned to anything (a field
/// behind a header, a sub-slice of a byte buffer) - the allocator's 16-byte
/// alignment of a `Vec<[u8; 64]>` is a coincidence an engine must not rely on.
pub struct Misaligned {
    raw: Vec<u8>,
    off: usize,
    blocks: usize,
}

impl Misaligned {
    pub fn from_blocks(src: &[[u8; 64]], off: usize) -> Misaligned {
        let mut raw = vec![0xA5u8; off + 64 * src.len() + 1];
        raw[off..off + 64 * src.len()].copy_from_slice(src.as_flattened());
        Misaligned { raw, off, blocks: src.len() }
    }
    pub fn blocks_mut(&mut self) -> &mut [[u8; 64]] {
        self.raw[self.off..self.off + 64 * self.blocks].as_chunks_mut::<64>().0
    }
    pub fn blocks(&self) -> &[[u8; 64]] {
        self.raw[self.off..self.off + 64 * self.blocks].as_chunks::<64>().0
    }
}

/// A transform whose working set (size x blocks x 64 bytes) is 64-160 MiB.
pub fn huge_transform(rng: &mut Rng) -> TransformParams {
    let n = *rng.pick(&[1u32, 2, 5, 10, 14]);
    let size = 1usize << n;
    let target = (64usize << 20) + rng.below(96 << 20);
    TransformParams {
        inverse: rng.chance(1, 2),
        shard_len_64: target.div_ceil(64 * size) + rng.below(2),
        shard_count: size,
        pos: 0,
        size,
        truncated: if rng.chance(1, 2) { size } else { rng.range(1, size) },
        skew_delta: if rng.chance(1, 2) { 0 } else { size * rng.below(65536 / size) },
    }
}

fn transform_case(rng: &mut Rng, out: &mut CaseOut, max_log: u32) {
    let p = gen_transform(rng, max_log);
    let mut engines = EngineKind::all();
    engines.retain(|k| *k != EngineKind::Naive);
    transform_case_with(rng, out, p, &engines);
}

fn transform_case_with(rng: &mut Rng, out: &mut CaseOut, p: TransformParams, engines: &[EngineKind]) {
    let input = gen_transform_input(rng, &p);
    let l = p.shard_len_64;
    let mut reference = input.clone();
    apply_transform(EngineKind::Naive, &p, &mut reference);
    let desc = format!("{p:?}");
    // which shards are contract-defined
    let defined_end = if p.inverse { p.size } else { p.truncated };
    let engines: Vec<EngineKind> = std::iter::once(EngineKind::Naive).chain(engines.iter().copied()).collect();
    // a quarter of the cases: the shards do not start at an aligned address
    let off = if input.len() <= 1 << 16 && rng.chance(1, 4) { *rng.pick(&[1usize, 8, 17, 24, 33, 40, 63]) } else { 0 };
    if off != 0 {
        out.tag("misaligned-shard-storage");
    }
    for kind in engines {
        let mut buf = input.clone();
        if off != 0 {
            let mut m = Misaligned::from_blocks(&input, off);
            apply_transform(kind, &p, m.blocks_mut());
            buf.copy_from_slice(m.blocks());
        } else {
            apply_transform(kind, &p, &mut buf);
        }
        out.evals += 1;
        // confinement: nothing outside [pos, pos+size) changes
        for s in (0..p.pos).chain(p.pos + p.size..p.shard_count) {
            if buf[s * l..(s + 1) * l] != input[s * l..(s + 1) * l] {
                out.violate(
                    format!("C03:outside-range-modified:{}", kind.name()),
                    format!("{desc}: engine {} modified shard {s} outside [pos, pos+size)", kind.name()),
                );
                break;
            }
        }
        if kind == EngineKind::Naive {
            continue;
        }
        for s in p.pos..p.pos + defined_end {
            if buf[s * l..(s + 1) * l] != reference[s * l..(s + 1) * l] {
                out.violate(
                    format!(
                        "C03:{}-differs:{}",
                        if p.inverse { "ifft" } else { "fft" },
                        kind.name()
                    ),
                    format!(
                        "{desc}: engine {} differs from Naive at shard {} (relative {})",
                        kind.name(),
                        s,
                        s - p.pos
                    ),
                );
                break;
            }
        }
    }
    out.tag(if p.inverse { "ifft" } else { "fft" });
    out.tag(format!("log2size:{}", p.size.trailing_zeros()));
    out.tag(if p.shard_len_64 > 4096 { "len64:>4096".to_string() } else { format!("len64:{}", p.shard_len_64) });
    if p.size * p.shard_len_64 * 64 >= 64 << 20 {
        out.tag("working-set>=64MiB");
    }
    if p.truncated < p.size {
        out.tag("truncated");
    }
    if p.size >= 2 && defined_end >= 1 {
        out.nontrivial_key(&desc);
    }
    out.sample = Some(jobj(&[("params", jstr(&desc))]));
}

fn mul_case(rng: &mut Rng, log_m: u16, out: &mut CaseOut) {
    let blocks = rng.below(9);
    // canaries before and after the slice handed to mul (they catch stray
    // writes); in a third of the cases the slice ends exactly where the
    // allocation ends, so that a sanitizer sees any access beyond it
    let tail = usize::from(!rng.chance(1, 3));
    let mut buf = vec![[0u8; 64]; blocks + 1 + tail];
    let structured = rng.chance(1, 3);
    for b in buf.iter_mut() {
        rng.fill(b);
        if structured {
            structure_block(rng, b);
        }
    }
    if rng.chance(1, 6) && blocks > 0 {
        buf[1] = [0; 64];
    }
    let input = buf.clone();
    let mut reference = input.clone();
    codec::dyn_engine(EngineKind::Naive).mul(&mut reference[1..=blocks], log_m);
    let off = if rng.chance(1, 3) { *rng.pick(&[1usize, 8, 17, 24, 33, 40, 63]) } else { 0 };
    if off != 0 {
        out.tag("misaligned-shard-storage");
    }
    for kind in EngineKind::all() {
        let mut b = input.clone();
        if off != 0 {
            let mut m = Misaligned::from_blocks(&input, off);
            codec::dyn_engine(kind).mul(&mut m.blocks_mut()[1..=blocks], log_m);
            b.copy_from_slice(m.blocks());
        } else {
            codec::dyn_engine(kind).mul(&mut b[1..=blocks], log_m);
        }
        out.evals += 1;
        if b[0] != input[0] || (tail == 1 && b[blocks + 1] != input[blocks + 1]) {
            out.violate(
                format!("C03:mul-outside-modified:{}", kind.name()),
                format!("mul blocks={blocks} log_m={log_m}: engine {} wrote outside its slice", kind.name()),
            );
        }
        if b[1..=blocks] != reference[1..=blocks] {
            out.violate(
                format!("C03:mul-differs:{}", kind.name()),
                format!("mul blocks={blocks} log_m={log_m}: engine {} differs from Naive", kind.name()),
            );
        }
    }
    out.tag(format!("mul-blocks:{blocks}"));
    if blocks > 0 {
        out.nontrivial_key(&format!("mul/{blocks}/{log_m}/{}", rng.next_u64()));
    }
    out.sample = Some(jobj(&[("mul", jstr(&format!("blocks={blocks} log_m={log_m}")))]));
}

pub fn gen_erasures(rng: &mut Rng) -> (Box<[u16; 65536]>, usize, &'static str) {
    let mut e = Box::new([0u16; 65536]);
    let shape;
    let cover; // smallest truncated_size that covers all marks
    match rng.below(5) {
        0 => {
            shape = "sparse";
            let n = rng.range(1, 40);
            let hi = 1usize << rng.range(1, 16);
            let mut mx = 0;
            for _ in 0..n {
                let i = rng.below(hi);
                e[i] = 1;
                mx = mx.max(i);
            }
            cover = mx + 1;
        }
        1 => {
            shape = "dense-prefix";
            let hi = rng.range(1, 65536);
            for i in 0..hi {
                if rng.chance(1, 2) {
                    e[i] = 1;
                }
            }
            e[hi - 1] = 1;
            cover = hi;
        }
        2 => {
            shape = "burst";
            let a = rng.below(65536);
            let b = (a + rng.range(1, 5000)).min(65536);
            for i in a..b {
                e[i] = 1;
            }
            cover = b;
        }
        3 => {
            shape = "high-rate-like";
            // recovery gaps + padding + some originals
            let r = rng.range(1, 3000);
            let chunk = r.next_power_of_two();
            let k = rng.range(1, 20000.min(65536 - chunk));
            for i in 0..r {
                if rng.chance(1, 3) {
                    e[i] = 1;
                }
            }
            for i in r..chunk {
                e[i] = 1;
            }
            for i in chunk..chunk + k {
                if rng.chance(1, 4) {
                    e[i] = 1;
                }
            }
            cover = chunk + k;
        }
        _ => {
            shape = "low-rate-like";
            let k = rng.range(1, 3000);
            let chunk = k.next_power_of_two();
            let r = rng.range(1, 20000.min(65536 - chunk));
            for i in 0..k {
                if rng.chance(1, 2) {
                    e[i] = 1;
                }
            }
            for i in chunk..chunk + r {
                if rng.chance(1, 3) {
                    e[i] = 1;
                }
            }
            for i in chunk + r..65536 {
                e[i] = 1;
            }
            cover = 65536;
        }
    }
    (e, cover, shape)
}

fn eval_poly_case(rng: &mut Rng, out: &mut CaseOut) {
    let (e, cover, shape) = gen_erasures(rng);
    let truncated = match rng.below(3) {
        0 => cover,
        1 => 65536,
        _ => rng.range(cover, 65536),
    };
    let mut reference = e.clone();
    codec::eval_poly(EngineKind::Naive, &mut reference, truncated);
    for kind in EngineKind::all() {
        if kind == EngineKind::Naive {
            continue;
        }
        let mut b = e.clone();
        codec::eval_poly(kind, &mut b, truncated);
        out.evals += 1;
        if b != reference {
            let i = b.iter().zip(reference.iter()).position(|(x, y)| x != y);
            out.violate(
                format!("C03:eval-poly-differs:{}", kind.name()),
                format!("eval_poly shape={shape} truncated={truncated}: engine {} differs from Naive at {i:?}", kind.name()),
            );
        }
    }
    out.tag(format!("eval-poly:{shape}"));
    out.nontrivial_key(&format!("ep/{shape}/{cover}/{truncated}/{}", rng.next_u64()));
    out.sample = Some(jobj(&[(
        "eval_poly",
        jstr(&format!("shape={shape} cover={cover} truncated={truncated}")),
    )]));
}

fn e2e_case(rng: &mut Rng, out: &mut CaseOut) {
    let rate = gen::rate(rng);
    let class = match rng.below(20) {
        0..=6 => Class::Tiny,
        7..=12 => Class::Small,
        13..=16 => Class::Edge,
        17..=18 => Class::Medium,
        _ => Class::Large,
    };
    let (k, r) = gen::config(rng, class, rate);
    let size = gen::shard_size(rng, k, r);
    let poison = rng.chance(1, 2);
    let _p = Poison::new(poison, rng.next_u64());
    let originals = gen::originals(rng, k, size);
    let (orig_idx, rec_idx, shape) = gen::received_set(rng, k, r);
    let order = gen::add_order(rng, &orig_idx, &rec_idx, true);
    let desc = format!(
        "k={k} r={r} rate={} size={size} given={}+{} shape={shape} poison={poison}",
        rate.name(),
        orig_idx.len(),
        rec_idx.len()
    );
    let big = k.max(r) > 2048;
    let reference_engine = if big {
        EngineKind::NoSimd
    } else {
        EngineKind::Naive
    };
    let run = |eng: EngineKind| -> Result<(Vec<Vec<u8>>, Vec<(usize, Vec<u8>)>), String> {
        let api = Api::Rate(rate, eng);
        let rec = codec::encode_fresh(api, k, r, size, &originals).map_err(|e| e.to_string())?;
        let mut dec = codec::make_dec(api, k, r, size, None).map_err(|e| e.to_string())?;
        let obs = codec::decode_round(dec.as_mut(), &order, &originals, &rec, &[])
            .map_err(|e| e.to_string())?;
        Ok((rec, obs.iter))
    };
    let reference = match run(reference_engine) {
        Ok(v) => v,
        Err(e) => {
            out.violate("C03:e2e-reference-failed", format!("{desc}: {e}"));
            return;
        }
    };
    let engines = if big {
        EngineKind::fast()
    } else {
        EngineKind::all()
    };
    for eng in engines {
        if eng == reference_engine {
            continue;
        }
        out.evals += 1;
        match run(eng) {
            Err(e) => out.violate(
                format!("C03:e2e-failed:{}", eng.name()),
                format!("{desc}: {e}"),
            ),
            Ok(v) => {
                if v.0 != reference.0 {
                    out.violate(
                        format!("C03:e2e-recovery-differs:{}", eng.name()),
                        format!("{desc}: recovery of engine {} differs from {}", eng.name(), reference_engine.name()),
                    );
                } else if v.1 != reference.1 {
                    out.violate(
                        format!("C03:e2e-restored-differs:{}", eng.name()),
                        format!("{desc}: restored shards of engine {} differ from {}", eng.name(), reference_engine.name()),
                    );
                }
            }
        }
    }
    out.tag(format!("e2e-rate:{}", rate.name()));
    out.tag(format!("e2e-class:{}", class.name()));
    out.nontrivial_key(&format!("e2e/{desc}"));
    out.sample = Some(jobj(&[("e2e", jstr(&desc))]));
}
