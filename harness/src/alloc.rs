//! Counting global allocator. Counts only while tracking is switched on for
//! the current thread, so parallel workers do not disturb each other.

use std::alloc::{GlobalAlloc, Layout, System};
use std::cell::Cell;

pub struct Counting;

thread_local! {
    static TRACK: Cell<bool> = const { Cell::new(false) };
    static BYTES: Cell<u64> = const { Cell::new(0) };
    static COUNT: Cell<u64> = const { Cell::new(0) };
    static LARGEST: Cell<usize> = const { Cell::new(0) };
    // sizes of the first allocations of the measured region, in order
    static SEQ: Cell<[usize; SEQ_LEN]> = const { Cell::new([0; SEQ_LEN]) };
}

pub const SEQ_LEN: usize = 24;

fn note(size: usize) {
    let _ = TRACK.try_with(|t| {
        if t.get() {
            let _ = BYTES.try_with(|b| b.set(b.get() + size as u64));
            let _ = COUNT.try_with(|c| {
                let n = c.get() as usize;
                if n < SEQ_LEN {
                    let _ = SEQ.try_with(|q| {
                        let mut a = q.get();
                        a[n] = size;
                        q.set(a);
                    });
                }
                c.set(c.get() + 1)
            });
            let _ = LARGEST.try_with(|l| l.set(l.get().max(size)));
        }
    });
}

unsafe impl GlobalAlloc for Counting {
    unsafe fn alloc(&self, layout: Layout) -> *mut u8 {
        note(layout.size());
        System.alloc(layout)
    }
    unsafe fn alloc_zeroed(&self, layout: Layout) -> *mut u8 {
        note(layout.size());
        System.alloc_zeroed(layout)
    }
    unsafe fn dealloc(&self, ptr: *mut u8, layout: Layout) {
        System.dealloc(ptr, layout)
    }
    unsafe fn realloc(&self, ptr: *mut u8, layout: Layout, new_size: usize) -> *mut u8 {
        if new_size > layout.size() {
            note(new_size);
        }
        System.realloc(ptr, layout, new_size)
    }
}

#[derive(Clone, Copy, Debug, Default, PartialEq, Eq)]
pub struct Stats {
    pub bytes: u64,
    pub count: u64,
    pub largest: usize,
    /// sizes of the first SEQ_LEN allocations, in order (0 = none)
    pub seq: [usize; SEQ_LEN],
}

/// Runs `f` with allocation tracking on; returns what this thread allocated.
pub fn measure<T>(f: impl FnOnce() -> T) -> (T, Stats) {
    BYTES.with(|b| b.set(0));
    COUNT.with(|c| c.set(0));
    LARGEST.with(|l| l.set(0));
    SEQ.with(|q| q.set([0; SEQ_LEN]));
    TRACK.with(|t| t.set(true));
    let v = f();
    TRACK.with(|t| t.set(false));
    (
        v,
        Stats {
            bytes: BYTES.with(Cell::get),
            count: COUNT.with(Cell::get),
            largest: LARGEST.with(Cell::get),
            seq: SEQ.with(Cell::get),
        },
    )
}
