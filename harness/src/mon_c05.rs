//! C05 - results never depend on what the codec object did before.
//! Oracle: a freshly constructed object given the same configuration and
//! shards (history differential); for decoders also the ground truth.
//! Two staleness tiers: natural (what real earlier rounds left behind) and
//! poisoned (H1: the whole working memory is rewritten with junk on resize).

use std::sync::Mutex;

use reed_solomon_simd::Error;

use crate::codec::{self, Api, DecObs, DynDec, DynEnc, EncObs, EngineKind, RateKind};
use crate::gen::{self, Class};
use crate::hooks;
use crate::mon_c01::{expected, first_diff};
use crate::util::{guarded, jlist, jobj, jstr, panic_sig, run_cases, Agg, CaseOut, Rng, RunCfg};

pub fn run(cfg: &RunCfg, agg: &Mutex<Agg>) {
    run_cases(agg, cfg, "encoder-history", crate::count(cfg, 5000, 120_000), |cs, out| {
        encoder_history(&mut Rng::new(cs), out);
    });
    run_cases(agg, cfg, "decoder-history", crate::count(cfg, 5000, 120_000), |cs, out| {
        decoder_history(&mut Rng::new(cs), out);
    });
}

fn hist_class(rng: &mut Rng) -> Class {
    match rng.below(20) {
        0..=7 => Class::Tiny,
        8..=13 => Class::Small,
        14..=17 => Class::Edge,
        _ => Class::Medium,
    }
}

fn hist_size(rng: &mut Rng, k: usize, r: usize) -> usize {
    if k.max(r) > 300 {
        *rng.pick(&[2usize, 4, 62, 64, 66])
    } else {
        *rng.pick(&[2usize, 4, 30, 62, 64, 66, 126, 128, 130, 190, 192, 258])
    }
}

fn pick_api(rng: &mut Rng, allow_wrapper: bool) -> Api {
    if allow_wrapper && rng.chance(1, 6) {
        Api::Wrapper
    } else {
        Api::Rate(gen::rate(rng), *rng.pick(&EngineKind::all()))
    }
}

fn api_rate(api: Api) -> RateKind {
    match api {
        Api::Wrapper => RateKind::Default,
        Api::Rate(r, _) => r,
    }
}

fn set_poison(on: bool, rng: &mut Rng) {
    hooks::set_poison(if on { rng.next_u64() | 1 } else { 0 });
}

// ======================================================================
// ENCODER

/// a few calls that must fail, issued in the middle of a history
fn failing_enc_calls(rng: &mut Rng, enc: &mut dyn DynEnc, size: usize, log: &mut Vec<String>) {
    for _ in 0..rng.range(1, 3) {
        match rng.below(5) {
            4 => {
                let _ = enc.reset(3, 2, 7);
                log.push("fail:reset-odd-size".into());
            }
            0 => {
                let _ = enc.add(&vec![0u8; size + 2]);
                log.push("fail:add-wrong-size".into());
            }
            1 => {
                let _ = enc.reset(0, 1, 64);
                log.push("fail:reset-unsupported".into());
            }
            2 => {
                let _ = enc.reset(40000, 40000, 64);
                log.push("fail:reset-unsupported-big".into());
            }
            _ => {
                let _ = enc.add(&[1u8]);
                log.push("fail:add-odd".into());
            }
        }
    }
}

fn encoder_history(rng: &mut Rng, out: &mut CaseOut) {
    let fills0 = hooks::poison_fills();
    let poisoned = hooks::armed() && rng.chance(1, 2);
    let rounds = rng.range(2, if crate::thorough() { 20 } else { 8 });
    let mut api = pick_api(rng, true);
    let mut log: Vec<String> = Vec::new();
    let mut enc: Option<Box<dyn DynEnc>> = None;
    let mut cur: Option<(usize, usize, usize)> = None;
    let mut shapes_done: Vec<(usize, usize, usize, RateKind)> = Vec::new();
    let r = guarded(|| {
        for round in 0..rounds {
            // ---- transition
            let same = cur.is_some() && rng.chance(1, 5);
            let (k, r, size) = if same {
                cur.unwrap()
            } else {
                let rate_next = api_rate(api);
                let hc = hist_class(rng);
                let (k, r) = gen::config(rng, hc, rate_next);
                (k, r, hist_size(rng, k, r))
            };
            set_poison(poisoned, rng);
            if enc.is_none() {
                log.push(format!("new {} k={k} r={r} size={size}", api.name()));
                enc = Some(codec::make_enc(api, k, r, size, None).expect("new on supported config"));
            } else if same {
                log.push("implicit-reset (same config)".into());
            } else {
                let e = enc.as_mut().unwrap();
                // maybe abandon an incomplete round first
                if rng.chance(1, 3) {
                    let (ck, _, cs) = cur.unwrap();
                    let n = rng.below(ck);
                    for _ in 0..n {
                        let junk = rng.bytes(cs);
                        e.add(&junk).expect("add in abandoned round");
                    }
                    log.push(format!("abandon after {n} adds"));
                }
                if rng.chance(1, 4) {
                    failing_enc_calls(rng, e.as_mut(), cur.unwrap().2, &mut log);
                }
                let can_recycle = api != Api::Wrapper;
                if can_recycle && rng.chance(1, 2) {
                    // hand the working space to another codec type / engine
                    let new_api = pick_api(rng, false);
                    // sometimes hand the working space over for exactly the
                    // configuration it is already set up for
                    let (k, r, size) = match cur {
                        Some(c) if rng.chance(1, 3) => c,
                        _ => (k, r, size),
                    };
                    let (k2, r2) = if gen::rate_ok(api_rate(new_api), k, r) {
                        (k, r)
                    } else {
                        {
                            let hc = hist_class(rng);
                            gen::config(rng, hc, api_rate(new_api))
                        }
                    };
                    let work = enc.take().unwrap().into_work();
                    log.push(format!("recycle -> {} k={k2} r={r2} size={size}", new_api.name()));
                    api = new_api;
                    enc = Some(codec::make_enc(api, k2, r2, size, work).expect("new with recycled work"));
                    cur = Some((k2, r2, size));
                } else {
                    log.push(format!("reset k={k} r={r} size={size}"));
                    e.reset(k, r, size).expect("reset to supported config");
                    cur = Some((k, r, size));
                }
            }
            if cur.is_none() || same {
                cur = Some((k, r, size));
            }
            let (k, r, size) = cur.unwrap();
            let e = enc.as_mut().unwrap();
            if rng.chance(1, 6) {
                failing_enc_calls(rng, e.as_mut(), size, &mut log);
            }
            // ---- the round under test (sometimes ends in an error)
            let originals = gen::originals(rng, k, size);
            let short = rng.chance(1, 10);
            let n_add = if short { rng.below(k) } else { k };
            let probes = [0usize, r - 1, r];
            // one round in eight passes some shards as values whose as_ref()
            // changes between calls (the same values to both objects)
            let shifty = if rng.chance(1, 8) { Some(rng.next_u64()) } else { None };
            if shifty.is_some() {
                out.tag("shifty-asref-shards");
            }
            let on_reused: Result<EncObs, Error> = (|| {
                codec::add_all(e.as_mut(), &originals[..n_add], shifty)?;
                e.encode_obs(&probes)
            })();
            set_poison(false, rng);
            let on_fresh: Result<EncObs, Error> = (|| {
                let mut f = codec::make_enc(api, k, r, size, None)?;
                codec::add_all(f.as_mut(), &originals[..n_add], shifty)?;
                f.encode_obs(&probes)
            })();
            out.evals += 1;
            let desc = format!(
                "round {round} k={k} r={r} size={size} api={} poisoned={poisoned} adds={n_add}",
                api.name()
            );
            let same_result = match (&on_reused, &on_fresh) {
                (Ok(a), Ok(b)) => a.iter == b.iter && a.probes == b.probes && a.nones_after_end == b.nones_after_end,
                (Err(a), Err(b)) => a == b,
                _ => false,
            };
            if !same_result {
                let what = match (&on_reused, &on_fresh) {
                    (Ok(a), Ok(b)) => {
                        let j = a.iter.iter().zip(&b.iter).position(|(x, y)| x != y);
                        format!("recovery shard {j:?} differs from a fresh encoder's")
                    }
                    (a, b) => format!(
                        "reused object returned {:?}, fresh object {:?}",
                        a.as_ref().map(|_| "Ok").map_err(|e| e.to_string()),
                        b.as_ref().map(|_| "Ok").map_err(|e| e.to_string())
                    ),
                };
                out.violate(
                    if poisoned { "C05:encoder-history-dependence:poisoned" } else { "C05:encoder-history-dependence:natural" },
                    format!("{desc}: {what}; history: {}", log.join(" | ")),
                );
                return;
            }
            if on_reused.is_err() {
                // leave the incomplete round in place: the next transition
                // (reset / recycle) must cope with it
                log.push(format!("round ended in error after {n_add} adds"));
                // an implicit reset is not possible after a failed encode
                cur = Some((k, r, size));
                // clear by explicit reset so that the object state is known
                set_poison(poisoned, rng);
                e.reset(k, r, size).expect("reset after failed encode");
                set_poison(false, rng);
                log.push("reset (same config) after failed round".into());
            } else {
                log.push(format!("round ok k={k} r={r} size={size}"));
            }
            let rate = api_rate(api);
            let differs = shapes_done
                .iter()
                .any(|s| *s != (k, r, size, rate));
            if differs {
                out.nontrivial_key(&format!("enc/{}/{}", log.join("|"), poisoned));
                out.tag(if poisoned { "nontrivial:poisoned" } else { "nontrivial:natural" });
            }
            if on_reused.is_ok() {
                shapes_done.push((k, r, size, rate));
            }
        }
    });
    hooks::set_poison(0);
    if let Err(msg) = r {
        out.violate(
            format!("C05:{}", panic_sig(&msg)),
            format!("panic during encoder history: {msg}; history: {}", log.join(" | ")),
        );
    }
    for l in &log {
        if let Some(t) = l.split_whitespace().next() {
            out.tag(format!("enc-step:{t}"));
        }
    }
    out.add("working-memory poison fills (hook H1)", hooks::poison_fills() - fills0);
    if poisoned && hooks::poison_fills() == fills0 {
        out.inconclusive.push("H1 poison hook never reached although armed: the poisoned tier degenerated to the natural one".into());
    }
    out.sample = Some(jobj(&[
        ("kind", jstr("encoder-history")),
        ("poisoned", poisoned.to_string()),
        ("history", jlist(&log.iter().map(|s| jstr(s)).collect::<Vec<_>>())),
    ]));
}

// ======================================================================
// DECODER

fn failing_dec_calls(rng: &mut Rng, dec: &mut dyn DynDec, size: usize, log: &mut Vec<String>) {
    for _ in 0..rng.range(1, 3) {
        match rng.below(6) {
            5 => {
                let _ = dec.reset(3, 2, 0);
                log.push("fail:reset-zero-size".into());
            }
            0 => {
                let _ = dec.add_original(0, &vec![0u8; size + 2]);
                log.push("fail:add-wrong-size".into());
            }
            1 => {
                let _ = dec.reset(0, 1, 64);
                log.push("fail:reset-unsupported".into());
            }
            2 => {
                let _ = dec.add_original(70000, &vec![0u8; size]);
                log.push("fail:add-out-of-range".into());
            }
            3 => {
                let _ = dec.add_recovery(70000, &vec![0u8; size]);
                log.push("fail:add-rec-out-of-range".into());
            }
            _ => {
                let _ = dec.reset(40000, 40000, 64);
                log.push("fail:reset-unsupported-big".into());
            }
        }
    }
}

fn decoder_history(rng: &mut Rng, out: &mut CaseOut) {
    let fills0 = hooks::poison_fills();
    let poisoned = hooks::armed() && rng.chance(1, 2);
    let rounds = rng.range(2, if crate::thorough() { 20 } else { 8 });
    let mut api = pick_api(rng, true);
    let mut log: Vec<String> = Vec::new();
    let mut dec: Option<Box<dyn DynDec>> = None;
    let mut prev_set: Option<(Vec<usize>, Vec<usize>)> = None;
    let mut cur: Option<(usize, usize, usize)> = None;
    let mut shapes_done: Vec<(usize, usize, usize, RateKind)> = Vec::new();
    let r = guarded(|| {
        for round in 0..rounds {
            let same = cur.is_some() && rng.chance(1, 5);
            let (k, r, size) = if same {
                cur.unwrap()
            } else if cur.is_some() && rng.chance(1, 4) {
                // a neighbour of the current configuration: one or two shards
                // more or fewer on one side, same shard size (consecutive
                // stripes of one stream look like this)
                let (ck, cr, cs) = cur.unwrap();
                let (mut nk, mut nr) = (ck, cr);
                let d = rng.range(1, 2);
                match rng.below(4) {
                    0 => nk = ck + d,
                    1 => nk = ck.saturating_sub(d).max(1),
                    2 => nr = cr + d,
                    _ => nr = cr.saturating_sub(d).max(1),
                }
                if gen::rate_ok(api_rate(api), nk, nr) {
                    (nk, nr, cs)
                } else {
                    (ck, cr, cs)
                }
            } else {
                let hc = hist_class(rng);
                let (k, r) = gen::config(rng, hc, api_rate(api));
                (k, r, hist_size(rng, k, r))
            };
            set_poison(poisoned, rng);
            if dec.is_none() {
                log.push(format!("new {} k={k} r={r} size={size}", api.name()));
                dec = Some(codec::make_dec(api, k, r, size, None).expect("new on supported config"));
                cur = Some((k, r, size));
            } else if same {
                log.push("implicit-reset (same config)".into());
            } else {
                let d = dec.as_mut().unwrap();
                if rng.chance(1, 3) {
                    // abandon an incomplete round: add a few shards, never decode
                    let (ck, cr, cs) = cur.unwrap();
                    let n = rng.below(ck.min(6) + 1);
                    for t in 0..n {
                        let junk = rng.bytes(cs);
                        if t % 2 == 0 && t / 2 < ck {
                            d.add_original(t / 2, &junk).expect("add in abandoned round");
                        } else if t / 2 < cr {
                            d.add_recovery(t / 2, &junk).expect("add in abandoned round");
                        }
                    }
                    log.push(format!("abandon after {n} adds"));
                }
                if rng.chance(1, 4) {
                    failing_dec_calls(rng, d.as_mut(), cur.unwrap().2, &mut log);
                }
                if api != Api::Wrapper && rng.chance(1, 2) {
                    let new_api = pick_api(rng, false);
                    let (k, r, size) = match cur {
                        Some(c) if rng.chance(1, 3) => c,
                        _ => (k, r, size),
                    };
                    let (k2, r2) = if gen::rate_ok(api_rate(new_api), k, r) {
                        (k, r)
                    } else {
                        {
                            let hc = hist_class(rng);
                            gen::config(rng, hc, api_rate(new_api))
                        }
                    };
                    let work = dec.take().unwrap().into_work();
                    log.push(format!("recycle -> {} k={k2} r={r2} size={size}", new_api.name()));
                    api = new_api;
                    dec = Some(codec::make_dec(api, k2, r2, size, work).expect("new with recycled work"));
                    cur = Some((k2, r2, size));
                } else {
                    log.push(format!("reset k={k} r={r} size={size}"));
                    d.reset(k, r, size).expect("reset to supported config");
                    cur = Some((k, r, size));
                }
            }
            let (k, r, size) = cur.unwrap();
            let d = dec.as_mut().unwrap();
            if rng.chance(1, 6) {
                failing_dec_calls(rng, d.as_mut(), size, &mut log);
            }
            // ---- the round under test
            set_poison(false, rng);
            let originals = gen::originals(rng, k, size);
            let rate = api_rate(api);
            let recovery = codec::encode_fresh(Api::Rate(rate, EngineKind::NoSimd), k, r, size, &originals)
                .expect("reference encode");
            let (mut orig_idx, mut rec_idx, mut shape) = gen::received_set(rng, k, r);
            // a third of the rounds lose the same shards as the round before
            // (as far as the indexes exist here), topped up to k shards; and
            // now and then nothing but recovery shards arrives, all of them
            if let (Some((po, pr)), true) = (&prev_set, rng.chance(1, 3)) {
                let po: &Vec<usize> = po;
                let pr: &Vec<usize> = pr;
                orig_idx = po.iter().copied().filter(|i| *i < k).collect();
                rec_idx = pr.iter().copied().filter(|i| *i < r).collect();
                let mut next = 0;
                while orig_idx.len() + rec_idx.len() < k && next < r {
                    if !rec_idx.contains(&next) {
                        rec_idx.push(next);
                    }
                    next += 1;
                }
                let mut next = 0;
                while orig_idx.len() + rec_idx.len() < k {
                    if !orig_idx.contains(&next) {
                        orig_idx.push(next);
                    }
                    next += 1;
                }
                orig_idx.sort_unstable();
                rec_idx.sort_unstable();
                shape = "same-as-previous-round";
            } else if r >= k && rng.chance(1, 8) {
                orig_idx = Vec::new();
                rec_idx = (0..r).collect();
                shape = "all-recovery-no-original";
            }
            prev_set = Some((orig_idx.clone(), rec_idx.clone()));
            let short = rng.chance(1, 10);
            if short {
                // too few shards: decode must fail identically on both objects
                let total = orig_idx.len() + rec_idx.len();
                let drop = total - rng.below(k);
                for _ in 0..drop {
                    if !rec_idx.is_empty() {
                        rec_idx.pop();
                    } else {
                        orig_idx.pop();
                    }
                }
            }
            let order = gen::add_order(rng, &orig_idx, &rec_idx, true);
            let probes = [0usize, k - 1, k];
            set_poison(poisoned, rng);
            let shifty = if rng.chance(1, 8) { Some(rng.next_u64()) } else { None };
            if shifty.is_some() {
                out.tag("shifty-asref-shards");
            }
            let on_reused = codec::decode_round_with(d.as_mut(), &order, &originals, &recovery, &probes, shifty);
            set_poison(false, rng);
            let on_fresh: Result<DecObs, Error> = codec::make_dec(api, k, r, size, None)
                .and_then(|mut f| codec::decode_round_with(f.as_mut(), &order, &originals, &recovery, &probes, shifty));
            out.evals += 1;
            let desc = format!(
                "round {round} k={k} r={r} size={size} api={} poisoned={poisoned} given={}+{} shape={shape}",
                api.name(),
                orig_idx.len(),
                rec_idx.len()
            );
            let same_result = match (&on_reused, &on_fresh) {
                (Ok(a), Ok(b)) => a.iter == b.iter && a.probes == b.probes && a.nones_after_end == b.nones_after_end,
                (Err(a), Err(b)) => a == b,
                _ => false,
            };
            if !same_result {
                let what = match (&on_reused, &on_fresh) {
                    (Ok(a), Ok(b)) => format!("restored shards differ from a fresh decoder's: {}", first_diff(&a.iter, &b.iter)),
                    (a, b) => format!(
                        "reused object returned {:?}, fresh object {:?}",
                        a.as_ref().map(|_| "Ok").map_err(|e| e.to_string()),
                        b.as_ref().map(|_| "Ok").map_err(|e| e.to_string())
                    ),
                };
                out.violate(
                    if poisoned { "C05:decoder-history-dependence:poisoned" } else { "C05:decoder-history-dependence:natural" },
                    format!("{desc}: {what}; history: {}", log.join(" | ")),
                );
                return;
            }
            // (with shards whose as_ref() changes between calls "the shard
            // that was given" is not defined: only fresh-vs-reused is judged)
            if let (Ok(a), None) = (&on_reused, shifty) {
                let want = expected(&originals, &orig_idx);
                if a.iter != want {
                    out.violate(
                        "C05:decoder-wrong-vs-truth",
                        format!("{desc}: {}; history: {}", first_diff(&a.iter, &want), log.join(" | ")),
                    );
                    return;
                }
                log.push(format!("round ok k={k} r={r} size={size}"));
            } else {
                log.push("round ended in error (too few shards)".into());
                set_poison(poisoned, rng);
                d.reset(k, r, size).expect("reset after failed decode");
                set_poison(false, rng);
                log.push("reset (same config) after failed round".into());
            }
            let differs = shapes_done.iter().any(|s| *s != (k, r, size, rate));
            if differs {
                out.nontrivial_key(&format!("dec/{}/{}", log.join("|"), poisoned));
                out.tag(if poisoned { "nontrivial:poisoned" } else { "nontrivial:natural" });
            }
            if on_reused.is_ok() {
                shapes_done.push((k, r, size, rate));
            }
        }
    });
    hooks::set_poison(0);
    if let Err(msg) = r {
        out.violate(
            format!("C05:{}", panic_sig(&msg)),
            format!("panic during decoder history: {msg}; history: {}", log.join(" | ")),
        );
    }
    for l in &log {
        if let Some(t) = l.split_whitespace().next() {
            out.tag(format!("dec-step:{t}"));
        }
    }
    out.add("working-memory poison fills (hook H1)", hooks::poison_fills() - fills0);
    if poisoned && hooks::poison_fills() == fills0 {
        out.inconclusive.push("H1 poison hook never reached although armed: the poisoned tier degenerated to the natural one".into());
    }
    out.sample = Some(jobj(&[
        ("kind", jstr("decoder-history")),
        ("poisoned", poisoned.to_string()),
        ("history", jlist(&log.iter().map(|s| jstr(s)).collect::<Vec<_>>())),
    ]));
}
