//! Ports /repo/src/engine/engine_neon.rs to this (x86) harness by textual
//! substitution, so that the *real* Neon source runs on emulated intrinsics.
use std::{env, fs, path::PathBuf};

fn main() {
    let repo = env::var("RSMON_REPO").unwrap_or_else(|_| "/repo".to_string());
    let src_path = format!("{repo}/src/engine/engine_neon.rs");
    println!("cargo:rerun-if-changed={src_path}");
    println!("cargo:rerun-if-env-changed=RSMON_REPO");
    let out = PathBuf::from(env::var("OUT_DIR").unwrap()).join("engine_neon_port.rs");
    let src = fs::read_to_string(&src_path).unwrap_or_default();
    let mut ported = String::new();
    for line in src.lines() {
        let t = line.trim();
        if t.starts_with("#[target_feature(enable = \"neon\")]") {
            continue;
        }
        let l = line
            .replace("use std::arch::aarch64::*;", "use crate::neon_emu::*;")
            .replace("crate::engine", "reed_solomon_simd::engine");
        ported.push_str(&l);
        ported.push('\n');
    }
    fs::write(out, ported).unwrap();
}
