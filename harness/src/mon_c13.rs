//! C13 - encoding is linear over GF(2^16). Metamorphic oracle; scalar
//! multiplication by the harness's own field arithmetic.

use std::sync::Mutex;

use crate::codec;
use crate::gen;
use crate::gf::{self, Gf};
use crate::hooks::Poison;
use crate::util::{jobj, jstr, run_cases, Agg, CaseOut, Rng, RunCfg};

pub fn run(cfg: &RunCfg, agg: &Mutex<Agg>) {
    run_cases(agg, cfg, "linearity", crate::count(cfg, 6000, 150_000), |cs, out| {
        case(&mut Rng::new(cs), out);
    });
    // few shards of 4 / 8 MiB (block counts on a 16-bit boundary), dense data
    crate::util::run_indexed(agg, cfg, "linearity-long-shards", if cfg.thorough { 48 } else { 16 }, |i, out| {
        LONG.with(|l| l.set(Some(i as usize)));
        case(&mut Rng::new(crate::util::mix(cfg.seed, i)), out);
        LONG.with(|l| l.set(None));
    });
}

fn xor(a: &[Vec<u8>], b: &[Vec<u8>]) -> Vec<Vec<u8>> {
    a.iter()
        .zip(b)
        .map(|(x, y)| x.iter().zip(y).map(|(p, q)| p ^ q).collect())
        .collect()
}

fn scale(a: &[Vec<u8>], c: u16) -> Vec<Vec<u8>> {
    let g = Gf::get();
    a.iter()
        .map(|s| {
            let sym: Vec<u16> = gf::to_symbols(s).iter().map(|v| g.mul(*v, c)).collect();
            gf::from_symbols(&sym)
        })
        .collect()
}

thread_local! {
    /// case index of the long-shards stage (fixes engine and size)
    static LONG: std::cell::Cell<Option<usize>> = const { std::cell::Cell::new(None) };
}

fn case(rng: &mut Rng, out: &mut CaseOut) {
    let rate = gen::rate(rng);
    let class = gen::class_mix(rng, true);
    let (mut k, mut r) = gen::config(rng, class, rate);
    let mut size = gen::shard_size(rng, k, r);
    let long = LONG.with(|l| l.get());
    if let Some(i) = long {
        k = rng.range(2, 4);
        r = rng.range(2, 4);
        size = [4usize << 20, 8 << 20][(i / 4) % 2];
        out.tag("long-shards");
    }
    let api = match long {
        Some(i) => {
            let fast = codec::EngineKind::fast();
            codec::Api::Rate(rate, fast[i % fast.len()])
        }
        None => gen::api(rng, rate, k, r),
    };
    let poison = rng.chance(1, 2);
    let _p = Poison::new(poison, rng.next_u64());
    let a = if long.is_some() { (0..k).map(|_| rng.bytes(size)).collect() } else { gen::originals_for(rng, rate, k, r, size) };
    // b: another data set, or (a quarter of the cases) the delta of a small
    // update - a few bytes in one or two shards, everything else zero
    let delta = match long {
        // long shards: dense a; b alternates between a small delta and dense data
        Some(i) => (i / 8) % 2 == 0,
        None => rng.chance(1, 4),
    };
    let b = if delta {
        let mut d = vec![vec![0u8; size]; k];
        for _ in 0..rng.range(1, 2) {
            let i = rng.below(k);
            if size >= 64 && rng.chance(1, 2) {
                // a whole block rewritten, with structured contents
                let at = 64 * rng.below(size / 64);
                let mut blk = [0u8; 64];
                rng.fill(&mut blk);
                crate::mon_c03::structure_block(rng, &mut blk);
                d[i][at..at + 64].copy_from_slice(&blk);
                continue;
            }
            for _ in 0..rng.range(1, 3) {
                let at = rng.below(size);
                let len = rng.range(1, 4).min(size - at);
                let bytes = rng.bytes(len);
                d[i][at..at + len].copy_from_slice(&bytes);
            }
        }
        d
    } else {
        gen::originals(rng, k, size)
    };
    let desc = format!("k={k} r={r} rate={} size={size} api={}", rate.name(), api.name());
    // half of the cases run all encodes of the case on ONE encoder object
    // (consecutive rounds, implicit reset), the other half on fresh encoders:
    // parity updates in practice come from a long-lived encoder
    let shared = rng.chance(1, 2);
    let mut shared_enc = if shared { codec::make_enc(api, k, r, size, None).ok() } else { None };
    let mut enc = |d: &[Vec<u8>]| match shared_enc.as_mut() {
        Some(e) => {
            for s in d {
                e.add(s)?;
            }
            e.encode_obs(&[]).map(|o| o.iter)
        }
        None => codec::encode_fresh(api, k, r, size, d),
    };
    let (ea, eb, eab) = match (enc(&a), enc(&b), enc(&xor(&a, &b))) {
        (Ok(x), Ok(y), Ok(z)) => (x, y, z),
        _ => {
            out.violate("C13:encode-failed", desc);
            return;
        }
    };
    out.evals += 1;
    if eab != xor(&ea, &eb) {
        out.violate("C13:not-additive", format!("{desc}: enc(a^b) != enc(a)^enc(b)"));
    }
    // zero
    if rng.chance(1, 4) {
        out.evals += 1;
        let z = vec![vec![0u8; size]; k];
        match enc(&z) {
            Ok(ez) if ez.iter().all(|s| s.iter().all(|x| *x == 0)) => {}
            _ => out.violate("C13:zero-not-zero", format!("{desc}: enc(0) != 0")),
        }
        out.tag("zero");
    }
    // scalar
    let c: u16 = match rng.below(6) {
        0 => 0,
        1 => 1,
        2 => 2,
        _ => rng.next_u64() as u16,
    };
    out.evals += 1;
    match enc(&scale(&a, c)) {
        Ok(eca) if eca == scale(&ea, c) => {}
        _ => out.violate("C13:not-homogeneous", format!("{desc}: enc(c*a) != c*enc(a) for c={c:#06x}")),
    }
    if delta {
        out.tag("b-is-small-delta");
    }
    out.tag(if shared { "one-encoder-object" } else { "fresh-encoders" });
    out.tag(format!("rate:{}", rate.name()));
    out.tag(format!("class:{}", class.name()));
    out.tag(format!("api:{}", api.name()));
    out.nontrivial_key(&format!("{desc}/{c}/{}", rng.next_u64()));
    out.sample = Some(jobj(&[("config", jstr(&desc)), ("scalar", c.to_string())]));
}
