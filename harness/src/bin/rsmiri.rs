//! rsmiri - lean workloads for the Miri stages (and their native references).
//!
//!   rsmiri prims <engine> <seed> <count>   primitive cases; one digest line per
//!                                          case over the contract-defined outputs
//!   rsmiri codec <engine> <seed> <decode:0|1>   small encode (+ decode) round
//!   rsmiri default <seed>                  DefaultEngine: new + primitives + encode
//!   rsmiri race <seed>                     threads racing to initialise tables
//!
//! engine: naive | nosimd | ssse3 | avx2 | default | neon (aarch64 only) | neonport
//! The digests do not depend on the engine (engines are bit-identical on
//! contract-defined outputs), so a Miri run with engine X is compared with a
//! native run with engine naive.

use reed_solomon_simd::engine::{DefaultEngine, Engine, Naive, NoSimd, ShardsRefMut};
use reed_solomon_simd::rate::{
    DefaultRateDecoder, DefaultRateEncoder, RateDecoder, RateEncoder,
};

use rsmon::mon_c03::{gen_transform, gen_transform_input};
use rsmon::util::{hash_bytes, Rng};

fn engine(name: &str) -> Box<dyn Engine> {
    match name {
        "naive" => Box::new(Naive::new()),
        "nosimd" => Box::new(NoSimd::new()),
        "default" => Box::new(DefaultEngine::new()),
        #[cfg(target_arch = "x86_64")]
        "ssse3" => Box::new(reed_solomon_simd::engine::Ssse3::new()),
        #[cfg(target_arch = "x86_64")]
        "avx2" => Box::new(reed_solomon_simd::engine::Avx2::new()),
        #[cfg(target_arch = "aarch64")]
        "neon" => Box::new(reed_solomon_simd::engine::Neon::new()),
        #[cfg(feature = "neon-port")]
        "neonport" => Box::new(rsmon::neon_port::Neon::new()),
        other => panic!("engine {other} not available on this target"),
    }
}

fn prims(eng: &str, seed: u64, count: usize) {
    let e = engine(eng);
    println!("engine-constructed");
    for i in 0..count {
        let mut rng = Rng::new(rsmon::util::mix(seed, i as u64));
        if i % 3 == 2 {
            // mul
            let blocks = rng.range(1, 3);
            // the slice ends where the allocation ends: an access beyond it is UB
            let mut buf = vec![[0u8; 64]; blocks + 1];
            for b in buf.iter_mut() {
                rng.fill(b);
            }
            let log_m = match rng.below(4) {
                0 => 65535,
                1 => 0,
                _ => rng.next_u64() as u16,
            };
            e.mul(&mut buf[1..=blocks], log_m);
            println!("case {i} mul {}", hash_bytes(i as u64, buf.as_flattened()));
            continue;
        }
        let mut p = gen_transform(&mut rng, 5);
        p.shard_len_64 = p.shard_len_64.min(2);
        let mut buf = gen_transform_input(&mut rng, &p);
        let input = buf.clone();
        {
            let mut data = ShardsRefMut::new(p.shard_count, p.shard_len_64, &mut buf);
            if p.inverse {
                e.ifft(&mut data, p.pos, p.size, p.truncated, p.skew_delta);
            } else {
                e.fft(&mut data, p.pos, p.size, p.truncated, p.skew_delta);
            }
        }
        let l = p.shard_len_64;
        let end = if p.inverse { p.size } else { p.truncated };
        // contract-defined outputs + everything outside the range (must be unchanged)
        let mut h = hash_bytes(i as u64, buf[p.pos * l..(p.pos + end) * l].as_flattened());
        h = hash_bytes(h, buf[..p.pos * l].as_flattened());
        h = hash_bytes(h, buf[(p.pos + p.size) * l..].as_flattened());
        assert!(buf[..p.pos * l] == input[..p.pos * l], "shards before the range changed");
        assert!(buf[(p.pos + p.size) * l..] == input[(p.pos + p.size) * l..], "shards after the range changed");
        println!("case {i} {} {h}", if p.inverse { "ifft" } else { "fft" });
    }
}

fn codec_with<E: Engine>(mk: impl Fn() -> E, seed: u64, decode: bool) {
    let mut rng = Rng::new(seed);
    let k = rng.range(2, 6);
    let r = rng.range(1, 5);
    let size = *rng.pick(&[2usize, 66]);
    let originals: Vec<Vec<u8>> = (0..k).map(|_| rng.bytes(size)).collect();
    let mut enc = DefaultRateEncoder::new(k, r, size, mk(), None).expect("new");
    for o in &originals {
        enc.add_original_shard(o).expect("add");
    }
    let recovery: Vec<Vec<u8>> = enc.encode().expect("encode").recovery_iter().map(<[u8]>::to_vec).collect();
    let mut h = 0;
    for s in &recovery {
        h = hash_bytes(h, s);
    }
    println!("encode {k} {r} {size} {h}");
    // second round on the same object (implicit reset)
    for o in originals.iter().rev() {
        enc.add_original_shard(o).expect("add");
    }
    let res = enc.encode().expect("encode");
    let mut h = 1;
    for s in res.recovery_iter() {
        h = hash_bytes(h, s);
    }
    println!("encode-again {h}");
    if decode {
        let mut dec = DefaultRateDecoder::new(k, r, size, mk(), None).expect("new");
        let lose = r.min(k);
        for i in lose..k {
            dec.add_original_shard(i, &originals[i]).expect("add");
        }
        for i in 0..lose {
            dec.add_recovery_shard(i, &recovery[i]).expect("add");
        }
        let res = dec.decode().expect("decode");
        let mut h = 2;
        for (i, s) in res.restored_original_iter() {
            assert_eq!(s, &originals[i][..], "restored original {i} wrong");
            h = hash_bytes(h ^ i as u64, s);
        }
        println!("decode {h}");
    }
}

fn codec(eng: &str, seed: u64, decode: bool) {
    match eng {
        "naive" => codec_with(Naive::new, seed, decode),
        "nosimd" => codec_with(NoSimd::new, seed, decode),
        "default" => codec_with(DefaultEngine::new, seed, decode),
        #[cfg(target_arch = "x86_64")]
        "ssse3" => codec_with(reed_solomon_simd::engine::Ssse3::new, seed, decode),
        #[cfg(target_arch = "x86_64")]
        "avx2" => codec_with(reed_solomon_simd::engine::Avx2::new, seed, decode),
        #[cfg(target_arch = "aarch64")]
        "neon" => codec_with(reed_solomon_simd::engine::Neon::new, seed, decode),
        other => panic!("engine {other} not available on this target"),
    }
}

/// DefaultEngine under whatever features this build reports at run time
fn default_engine(seed: u64) {
    #[cfg(target_arch = "x86_64")]
    println!(
        "detected avx2={} ssse3={}",
        std::arch::is_x86_feature_detected!("avx2"),
        std::arch::is_x86_feature_detected!("ssse3")
    );
    #[cfg(target_arch = "aarch64")]
    println!("detected neon={}", std::arch::is_aarch64_feature_detected!("neon"));
    prims("default", seed, 9);
    codec("default", seed, false);
    // eval_poly dispatch of the default engine (first use builds LogWalsh)
    let mut e = Box::new([0u16; 65536]);
    e[3] = 1;
    e[5] = 1;
    DefaultEngine::eval_poly(&mut e, 8);
    let bytes: Vec<u8> = e.iter().take(4096).flat_map(|x| (u32::from(*x) % 65535).to_le_bytes()).collect();
    println!("eval_poly {}", hash_bytes(3, &bytes));
    // ISA trace (all zero when built without the hooks feature)
    println!("isa-counters {:?}", rsmon::hooks::isa_counters());
}

fn race(seed: u64) {
    use reed_solomon_simd::engine::tables;
    use std::sync::atomic::{AtomicBool, Ordering};
    use std::sync::{Arc, Barrier};
    let mut rng = Rng::new(seed);
    // always one early and one late polynomial evaluation, plus 0-2 other roles
    let n = rng.range(2, 4);
    let barrier = Arc::new(Barrier::new(n));
    // set (Relaxed: no synchronisation of its own) by a thread that has
    // finished a polynomial evaluation; "late" threads start theirs only then
    let done = Arc::new(AtomicBool::new(false));
    let mut kinds: Vec<usize> = (0..n).map(|_| rng.below(4)).collect();
    kinds[0] = 4;
    kinds[1] = 5;
    rng.shuffle(&mut kinds);
    let hs: Vec<_> = (0..n)
        .map(|t| {
            let b = barrier.clone();
            let done = done.clone();
            let kind = kinds[t];
            let s = rng.next_u64();
            std::thread::spawn(move || {
                b.wait();
                let h = match kind {
                    0 => {
                        let e = Naive::new();
                        let mut buf = vec![[0u8; 64]; 4];
                        let mut r = Rng::new(s);
                        for b in buf.iter_mut() {
                            r.fill(b);
                        }
                        let mut d = ShardsRefMut::new(4, 1, &mut buf);
                        e.ifft(&mut d, 0, 4, 4, 4);
                        hash_bytes(0, buf.as_flattened())
                    }
                    1 => {
                        let x = &*tables::EXP_LOG;
                        u64::from(x.exp[77]) << 16 | u64::from(x.log[99])
                    }
                    2 => {
                        let x = &*tables::SKEW;
                        u64::from(x[5]) << 16 | u64::from(x[65534])
                    }
                    3 => {
                        // encoder created here, finished on another thread
                        let mut enc = reed_solomon_simd::rate::HighRateEncoder::new(3, 2, 2, Naive::new(), None).expect("new");
                        enc.add_original_shard([1u8, 2]).expect("add");
                        let t2 = std::thread::spawn(move || {
                            enc.add_original_shard([3u8, 4]).expect("add");
                            enc.add_original_shard([5u8, 6]).expect("add");
                            let res = enc.encode().expect("encode");
                            let mut h = 9;
                            for s in res.recovery_iter() {
                                h = hash_bytes(h, s);
                            }
                            h
                        });
                        t2.join().expect("join")
                    }
                    _ => {
                        // polynomial evaluation as in decode (first use builds
                        // LogWalsh); kind 5 starts only after another thread's
                        // evaluation has completed
                        if kind == 5 {
                            while !done.load(Ordering::Relaxed) {
                                std::thread::yield_now();
                            }
                        }
                        let mut e = Box::new([0u16; 65536]);
                        e[1] = 1;
                        e[6] = 1;
                        Naive::eval_poly(&mut e, 8);
                        done.store(true, Ordering::Relaxed);
                        let bytes: Vec<u8> = e.iter().take(512).flat_map(|x| (u32::from(*x) % 65535).to_le_bytes()).collect();
                        hash_bytes(4, &bytes)
                    }
                };
                (t, kind, h)
            })
        })
        .collect();
    for h in hs {
        let (t, kind, d) = h.join().expect("thread panicked");
        println!("thread {t} kind {} {d}", kind.min(4));
    }
}

fn main() {
    let a: Vec<String> = std::env::args().collect();
    let num = |i: usize| a.get(i).and_then(|s| s.parse::<u64>().ok()).unwrap_or(0);
    match a.get(1).map(String::as_str) {
        Some("prims") => prims(&a[2], num(3), num(4) as usize),
        Some("codec") => codec(&a[2], num(3), num(4) != 0),
        Some("default") => default_engine(num(2)),
        Some("race") => race(num(2)),
        _ => {
            eprintln!("usage: rsmiri prims|codec|default|race ...");
            std::process::exit(2);
        }
    }
    println!("done");
}
