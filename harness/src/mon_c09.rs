//! C09 - the default codec is the rate fixed by the selection rule; the API
//! layers agree. Oracle: the rule written independently (gen::rule_high) and
//! the dedicated high/low codecs as reference implementations.

use std::sync::Mutex;

use crate::codec::{self, Api, EngineKind, RateKind};
use crate::gen::{self, Class};
use crate::hooks::Poison;
use crate::mon_c01::expected;
use crate::util::{jobj, jstr, run_cases, run_indexed, Agg, CaseOut, Rng, RunCfg};

pub fn run(cfg: &RunCfg, agg: &Mutex<Agg>) {
    // every (k, r) of a square at 2-byte shards
    let n: u64 = if cfg.thorough { 320 } else { 96 };
    run_indexed(agg, cfg, "rule-grid", n * n, |i, out| {
        let k = (i / n) as usize + 1;
        let r = (i % n) as usize + 1;
        rule_case(&mut Rng::new(i ^ cfg.seed), k, r, 2, out);
    });
    run_cases(agg, cfg, "rule-sampled", crate::count(cfg, 3000, 60_000), |cs, out| {
        let mut rng = Rng::new(cs);
        let class = match rng.below(10) {
            0..=3 => Class::Edge,
            4..=6 => Class::Medium,
            7..=8 => Class::Large,
            _ => Class::Corner,
        };
        let (k, r) = gen::config(&mut rng, class, RateKind::Default);
        let size = gen::shard_size(&mut rng, k, r);
        rule_case(&mut rng, k, r, size, out);
    });
    run_cases(agg, cfg, "reset-across-rule", crate::count(cfg, 2000, 40_000), |cs, out| {
        reset_history(&mut Rng::new(cs), out);
    });
    run_cases(agg, cfg, "api-layers", crate::count(cfg, 2000, 40_000), |cs, out| {
        api_layers(&mut Rng::new(cs), out);
    });
}

fn p2(x: usize) -> usize {
    x.next_power_of_two()
}

fn rule_case(rng: &mut Rng, k: usize, r: usize, size: usize, out: &mut CaseOut) {
    if !gen::envelope(k, r) {
        return;
    }
    let want_high = gen::rule_high(k, r);
    let named = if want_high { RateKind::High } else { RateKind::Low };
    let other = if want_high { RateKind::Low } else { RateKind::High };
    let eng = *rng.pick(&EngineKind::fast());
    let poison = rng.chance(1, 3);
    let _p = Poison::new(poison, rng.next_u64());
    let originals = gen::originals(rng, k, size);
    let desc = format!("k={k} r={r} size={size} engine={} rule={}", eng.name(), named.name());
    let enc = |rate: RateKind| codec::encode_fresh(Api::Rate(rate, eng), k, r, size, &originals);
    let (d, n) = match (enc(RateKind::Default), enc(named)) {
        (Ok(d), Ok(n)) => (d, n),
        (a, b) => {
            out.violate(
                "C09:encode-failed",
                format!("{desc}: default {:?}, dedicated {:?}", a.err().map(|e| e.to_string()), b.err().map(|e| e.to_string())),
            );
            return;
        }
    };
    out.evals += 1;
    if d != n {
        out.violate(
            format!("C09:default-encoder-is-not-the-rule-rate:{}", named.name()),
            format!("{desc}: default-rate recovery differs from the dedicated {} encoder", named.name()),
        );
    }
    // is the configuration discriminating? (other rate supported and gives other bytes)
    let discriminating = gen::rate_ok(other, k, r) && p2(k) != p2(r);
    if discriminating {
        if let Ok(o) = enc(other) {
            if o != d {
                out.nontrivial_key(&format!("rule/{k}/{r}/{size}"));
                out.tag("discriminating");
            } else {
                out.tag("other-rate-same-bytes");
            }
        }
    } else {
        out.tag(if p2(k) == p2(r) { "tie-pow2" } else { "only-one-rate-supported" });
    }
    // decoders: shards made by the dedicated encoder decode with the default
    // decoder and vice versa
    let (oi, ri, _) = gen::received_set(rng, k, r);
    let order = gen::add_order(rng, &oi, &ri, true);
    let want = expected(&originals, &oi);
    for (dec_rate, what) in [(RateKind::Default, "default decoder on dedicated-encoded shards"), (named, "dedicated decoder on default-encoded shards")] {
        out.evals += 1;
        let rec = if dec_rate == RateKind::Default { &n } else { &d };
        match codec::make_dec(Api::Rate(dec_rate, eng), k, r, size, None)
            .and_then(|mut dec| codec::decode_round(dec.as_mut(), &order, &originals, rec, &[]))
        {
            Ok(obs) if obs.iter == want => {}
            Ok(_) => out.violate(
                format!("C09:default-decoder-is-not-the-rule-rate:{}", named.name()),
                format!("{desc}: {what}: restored shards are wrong"),
            ),
            Err(e) => out.violate("C09:decode-failed", format!("{desc}: {what}: {e}")),
        }
    }
    out.tag(format!("rule:{}", named.name()));
    out.sample = Some(jobj(&[("config", jstr(&desc)), ("discriminating", discriminating.to_string())]));
}

/// one default-rate encoder and decoder reset across the rule boundary
fn reset_history(rng: &mut Rng, out: &mut CaseOut) {
    let eng = *rng.pick(&EngineKind::fast());
    let wrapper = rng.chance(1, 4);
    let api = if wrapper { Api::Wrapper } else { Api::Rate(RateKind::Default, eng) };
    let mut enc: Option<Box<dyn codec::DynEnc>> = None;
    let mut dec: Option<Box<dyn codec::DynDec>> = None;
    let mut hist = Vec::new();
    let mut last_high: Option<bool> = None;
    let mut switches = 0;
    for _ in 0..rng.range(2, if crate::thorough() { 16 } else { 6 }) {
        // alternate sides of the rule on purpose
        let (k, r) = loop {
            // mostly small; now and then anywhere in the envelope (corners included)
            let class = match rng.below(40) {
                0..=25 => Class::Small,
                26..=37 => Class::Edge,
                38 => Class::Large,
                _ => Class::Corner,
            };
            let (k, r) = gen::config(rng, class, RateKind::Default);
            let h = gen::rule_high(k, r);
            if last_high != Some(h) || rng.chance(1, 4) {
                break (k, r);
            }
        };
        let size = if k.max(r) > 4096 { 2 } else { *rng.pick(&[2usize, 30, 64, 66, 100]) };
        let high = gen::rule_high(k, r);
        if last_high.is_some() && last_high != Some(high) {
            switches += 1;
        }
        last_high = Some(high);
        hist.push(format!("({k},{r},{size})->{}", if high { "high" } else { "low" }));
        let named = if high { RateKind::High } else { RateKind::Low };
        let r1 = match enc.as_mut() {
            None => codec::make_enc(api, k, r, size, None).map(|e| enc = Some(e)),
            Some(e) => e.reset(k, r, size),
        };
        let r2 = match dec.as_mut() {
            None => codec::make_dec(api, k, r, size, None).map(|d| dec = Some(d)),
            Some(d) => d.reset(k, r, size),
        };
        if let Err(e) = r1.and(r2) {
            out.violate("C09:reset-failed", format!("history {hist:?}: {e}"));
            return;
        }
        let originals = gen::originals(rng, k, size);
        let e = enc.as_mut().unwrap();
        let got = (|| {
            for o in &originals {
                e.add(o)?;
            }
            e.encode_obs(&[])
        })();
        let want = codec::encode_fresh(Api::Rate(named, EngineKind::NoSimd), k, r, size, &originals);
        out.evals += 1;
        match (got, want) {
            (Ok(g), Ok(w)) => {
                if g.iter != w {
                    out.violate(
                        format!("C09:reset-keeps-wrong-rate:{}", named.name()),
                        format!("after history {hist:?} the default encoder differs from the dedicated {} encoder", named.name()),
                    );
                    return;
                }
                // the reused default decoder must decode shards of the dedicated encoder
                let (oi, ri, _) = gen::received_set(rng, k, r);
                let order = gen::add_order(rng, &oi, &ri, true);
                match codec::decode_round(dec.as_mut().unwrap().as_mut(), &order, &originals, &w, &[]) {
                    Ok(obs) if obs.iter == expected(&originals, &oi) => {}
                    Ok(_) => {
                        out.violate(
                            format!("C09:reset-keeps-wrong-rate-decoder:{}", named.name()),
                            format!("after history {hist:?} the default decoder restores wrong shards"),
                        );
                        return;
                    }
                    Err(e) => {
                        out.violate("C09:decode-failed", format!("history {hist:?}: {e}"));
                        return;
                    }
                }
            }
            (a, b) => {
                out.violate("C09:encode-failed", format!("history {hist:?}: {:?} {:?}", a.err(), b.err()));
                return;
            }
        }
    }
    out.tag(format!("rate-switches:{switches}"));
    if switches > 0 {
        out.nontrivial_key(&format!("hist/{hist:?}/{wrapper}"));
    }
    out.sample = Some(jobj(&[("history", jstr(&format!("{hist:?}"))), ("api", jstr(&api.name()))]));
}

/// ReedSolomonEncoder/Decoder and the one-shot functions produce the bytes of
/// the default-rate codec with any engine
fn api_layers(rng: &mut Rng, out: &mut CaseOut) {
    let class = gen::class_mix(rng, false);
    let (k, r) = gen::config(rng, class, RateKind::Default);
    let size = gen::shard_size(rng, k, r);
    let originals = gen::originals(rng, k, size);
    let desc = format!("k={k} r={r} size={size}");
    let reference = match codec::encode_fresh(Api::Rate(RateKind::Default, EngineKind::NoSimd), k, r, size, &originals) {
        Ok(v) => v,
        Err(e) => {
            out.violate("C09:encode-failed", format!("{desc}: {e}"));
            return;
        }
    };
    for eng in EngineKind::all() {
        out.evals += 1;
        match codec::encode_fresh(Api::Rate(RateKind::Default, eng), k, r, size, &originals) {
            Ok(v) if v == reference => {}
            _ => out.violate(format!("C09:engine-changes-default-bytes:{}", eng.name()), format!("{desc}: default-rate encoder with engine {} differs", eng.name())),
        }
    }
    out.evals += 2;
    match codec::encode_fresh(Api::Wrapper, k, r, size, &originals) {
        Ok(v) if v == reference => {}
        _ => out.violate("C09:wrapper-differs", format!("{desc}: ReedSolomonEncoder differs from the default-rate codec")),
    }
    // a third of the cases: the call follows, on this thread, a one-shot call
    // of the same shape that failed (one shard short / one shard of another
    // length) - the layers must agree whatever went before
    if rng.chance(1, 3) {
        let _ = reed_solomon_simd::encode(k, r, &originals[..k - 1]);
        if k >= 2 {
            let mut bad: Vec<Vec<u8>> = originals.clone();
            bad[k - 1] = vec![0u8; size + 2];
            let _ = reed_solomon_simd::encode(k, r, &bad);
        }
        out.tag("oneshot-after-failed-oneshot");
    }
    match reed_solomon_simd::encode(k, r, &originals) {
        Ok(v) if v == reference => {}
        _ => out.violate("C09:oneshot-differs", format!("{desc}: encode() differs from the default-rate codec")),
    }
    // decode layers
    let (oi, ri, _) = gen::received_set(rng, k, r);
    let order = gen::add_order(rng, &oi, &ri, true);
    let want = expected(&originals, &oi);
    for api in [Api::Wrapper, Api::Rate(RateKind::Default, *rng.pick(&EngineKind::all()))] {
        out.evals += 1;
        match codec::make_dec(api, k, r, size, None).and_then(|mut d| codec::decode_round(d.as_mut(), &order, &originals, &reference, &[])) {
            Ok(o) if o.iter == want => {}
            _ => out.violate("C09:decoder-layer-differs", format!("{desc}: decoder layer {} is wrong", api.name())),
        }
    }
    out.evals += 1;
    match reed_solomon_simd::decode(k, r, oi.iter().map(|i| (*i, &originals[*i])), ri.iter().map(|i| (*i, &reference[*i]))) {
        Ok(m) if m.len() == want.len() && want.iter().all(|(i, s)| m.get(i) == Some(s)) => {}
        _ => out.violate("C09:oneshot-decode-differs", format!("{desc}: decode() is wrong")),
    }
    out.tag(format!("layers:{}", class.name()));
    if gen::rate_ok(RateKind::High, k, r) && gen::rate_ok(RateKind::Low, k, r) && p2(k) != p2(r) {
        out.nontrivial_key(&format!("layers/{desc}"));
    }
    out.sample = Some(jobj(&[("layers", jstr(&desc))]));
}
