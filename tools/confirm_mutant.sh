#!/bin/bash
# usage: confirm_mutant.sh <worktree> <seeded-id> [demo-cargo-args...]
# Confirms in the scratch worktree, from MUTANT.diff: (1) existing suite passes with the change,
# (2) demo fails with it, (3) demo passes without it. Copies patch + demo to /verif/seeded/<seeded-id>/.
set -u
wt="$1"; id="$2"; shift 2
extra="$*"
cd "$wt" || exit 2
[ -s MUTANT.diff ] || { echo "no MUTANT.diff in $wt"; exit 2; }
git checkout -q -- src
git apply MUTANT.diff || { echo "MUTANT.diff does not apply to HEAD"; exit 2; }
echo "--- (1) existing suite with the change"
cargo test --offline --lib --test integration_test 2>&1 | grep -E "^test result|FAILED|failed" | head -5
echo "--- (2) demo with the change (must fail)"
cargo test --offline --test seeded_demo $extra 2>&1 | grep -E "^test result|FAILED" | head -8
echo "--- (3) demo without the change (must pass)"
git apply -R MUTANT.diff
cargo test --offline --test seeded_demo $extra 2>&1 | grep -E "^test result|FAILED" | head -4
git apply MUTANT.diff
mkdir -p /verif/seeded/$id
cp MUTANT.diff /verif/seeded/$id/patch.diff
cp tests/seeded_demo.rs /verif/seeded/$id/seeded_demo.rs
[ -f MUTANT.md ] && cp MUTANT.md /verif/seeded/$id/MUTANT.md
echo "--- patch applies to /repo HEAD?"; git -C /repo apply --check /verif/seeded/$id/patch.diff && echo yes
