//! C07 - a failed call changes nothing and leaves the object usable.
//! Oracle: twin differential. Primary and twin receive the same operation
//! stream; an operation that fails on the primary is NOT applied to the twin;
//! every operation that succeeds on the primary must succeed on the twin with
//! the same observable result. A failed call that leaked into the state shows
//! up as a later divergence or panic.

use std::sync::Mutex;

use reed_solomon_simd::Error;

use crate::codec::{self, Api, DecObs, DynDec, DynEnc, EncObs, EngineKind, RateKind};
use crate::gen::{self, Class};
use crate::hooks::Poison;
use crate::mon_c01::expected;
use crate::mon_c06::{hostile_count, hostile_index, hostile_size};
use crate::util::{guarded, jlist, jobj, jstr, panic_sig, run_cases, Agg, CaseOut, Rng, RunCfg};

/// Child process for the stage `unallocatable-reset`: a reset whose shard size
/// is valid (even, non-zero) but whose working space cannot possibly be
/// allocated. What the crate does with such a call is outside the properties
/// (today it panics or the allocator aborts the process - hence the child
/// process), BUT if the call *returns Err*, that Err is a failed call like any
/// other and must have changed nothing.
pub fn child(case: u64) {
    let mut rng = Rng::new(case);
    let api = pick_api(&mut rng);
    let rate = api_rate(api);
    let cur = cfg_small(&mut rng, rate);
    let huge = *rng.pick(&[usize::MAX - 1, 1usize << 62, 1usize << 44, (1usize << 40) + 2]);
    let encoder = rng.chance(1, 2);
    let other = cfg_small(&mut rng, rate);
    let (nk, nr) = if rng.chance(1, 2) { (cur.0, cur.1) } else { (other.0, other.1) };
    println!("case api={} cur={cur:?} reset=({nk},{nr},{huge}) encoder={encoder}", api.name());
    if encoder {
        let mut a = codec::make_enc(api, cur.0, cur.1, cur.2, None).expect("new");
        let mut b = codec::make_enc(api, cur.0, cur.1, cur.2, None).expect("new");
        let shards: Vec<Vec<u8>> = (0..cur.0).map(|_| rng.bytes(cur.2)).collect();
        let j = rng.below(cur.0 + 1);
        for s in &shards[..j] {
            a.add(s).expect("add");
            b.add(s).expect("add");
        }
        match guarded(|| a.reset(nk, nr, huge)) {
            Err(_) => {
                println!("outcome panicked");
                return;
            }
            Ok(Ok(())) => {
                println!("outcome ok");
                return;
            }
            Ok(Err(e)) => println!("outcome err {e:?}"),
        }
        let after = guarded(|| -> Result<Vec<Vec<u8>>, reed_solomon_simd::Error> {
            for s in &shards[j..] {
                a.add(s)?;
            }
            Ok(a.encode_obs(&[])?.iter)
        });
        for s in &shards[j..] {
            b.add(s).expect("twin add");
        }
        let want = b.encode_obs(&[]).expect("twin encode").iter;
        match after {
            Err(p) => println!("after panicked {}", p.replace('\n', " ")),
            Ok(Err(e)) => println!("after err {e:?}"),
            Ok(Ok(got)) if got == want => println!("after same"),
            Ok(Ok(_)) => println!("after differs"),
        }
    } else {
        let round = new_round(&mut rng, rate, cur);
        let mut a = codec::make_dec(api, cur.0, cur.1, cur.2, None).expect("new");
        let mut b = codec::make_dec(api, cur.0, cur.1, cur.2, None).expect("new");
        // all recovery shards that fit, then originals until k shards are there
        let nrec = cur.1.min(cur.0);
        let j = rng.below(nrec + 1);
        for i in 0..j {
            a.add_recovery(i, &round.recovery[i]).expect("add");
            b.add_recovery(i, &round.recovery[i]).expect("add");
        }
        match guarded(|| a.reset(nk, nr, huge)) {
            Err(_) => {
                println!("outcome panicked");
                return;
            }
            Ok(Ok(())) => {
                println!("outcome ok");
                return;
            }
            Ok(Err(e)) => println!("outcome err {e:?}"),
        }
        let given: Vec<usize> = (nrec..cur.0).collect();
        let after = guarded(|| -> Result<Vec<(usize, Vec<u8>)>, reed_solomon_simd::Error> {
            for i in j..nrec {
                a.add_recovery(i, &round.recovery[i])?;
            }
            for i in &given {
                a.add_original(*i, &round.originals[*i])?;
            }
            Ok(a.decode_obs(&[])?.iter)
        });
        let want = expected(&round.originals, &given);
        let _ = b;
        match after {
            Err(p) => println!("after panicked {}", p.replace('\n', " ")),
            Ok(Err(e)) => println!("after err {e:?}"),
            Ok(Ok(got)) if got == want => println!("after same"),
            Ok(Ok(_)) => println!("after differs"),
        }
    }
}

fn unallocatable_reset_stage(cfg: &RunCfg, agg: &Mutex<Agg>) {
    if !cfg.stage_enabled("unallocatable-reset") {
        return;
    }
    let exe = std::env::current_exe().expect("current_exe");
    let n = crate::count(cfg, 12, 120);
    let seeds: Vec<u64> = match cfg.only_case {
        Some(c) => vec![c],
        None => (0..n).map(|i| crate::util::mix(cfg.seed ^ 0xC07, i)).collect(),
    };
    let mut out = CaseOut::default();
    let mut returned_err = 0u64;
    let mut died = 0u64;
    for seed in seeds {
        let o = std::process::Command::new(&exe)
            .args(["C07CHILD", "--case", &seed.to_string()])
            .output();
        let Ok(o) = o else {
            out.inconclusive.push("cannot spawn child".into());
            continue;
        };
        let text = String::from_utf8_lossy(&o.stdout).to_string();
        out.evals += 1;
        let outcome = text.lines().find(|l| l.starts_with("outcome")).unwrap_or("outcome died");
        let after = text.lines().find(|l| l.starts_with("after")).unwrap_or("");
        let case = text.lines().find(|l| l.starts_with("case")).unwrap_or("").to_string();
        if outcome.starts_with("outcome err") {
            returned_err += 1;
            out.nontrivial_key(&case);
            if !after.starts_with("after same") {
                out.violations.push((
                    "C07:failed-reset-with-unallocatable-size-changed-the-object".to_string(),
                    format!("{case}: the reset returned an error ({outcome}) and the rest of the round then gave: {after} (child seed {seed})"),
                ));
            }
        } else {
            // panic / abort / kill: what happens for sizes that cannot be
            // allocated is outside the properties
            died += 1;
        }
    }
    out.add("resets with an unallocatable shard size that returned Err (judged)", returned_err);
    out.add("resets with an unallocatable shard size that panicked or aborted (outside the property)", died);
    out.tag("unallocatable-reset");
    // this stage is an extra: it judges only calls that return Err, and none
    // does on a tree that panics / aborts there; never count it as coverage
    out.sample = Some(jobj(&[("unallocatable_reset", jstr(&format!("{} child processes: {returned_err} returned Err, {died} died", returned_err + died)))]));
    agg.lock().unwrap().absorb("unallocatable-reset", 0, out);
}

pub fn run(cfg: &RunCfg, agg: &Mutex<Agg>) {
    unallocatable_reset_stage(cfg, agg);
    run_cases(agg, cfg, "encoder-twin", crate::count(cfg, 6000, 150_000), |cs, out| {
        encoder_twin(&mut Rng::new(cs), out);
    });
    run_cases(agg, cfg, "decoder-twin", crate::count(cfg, 6000, 150_000), |cs, out| {
        decoder_twin(&mut Rng::new(cs), out);
    });
}

fn pick_api(rng: &mut Rng) -> Api {
    if rng.chance(1, 4) {
        Api::Wrapper
    } else {
        // the default-rate codec has the most state to lose
        let rate = *rng.pick(&[RateKind::Default, RateKind::Default, RateKind::High, RateKind::Low]);
        Api::Rate(rate, *rng.pick(&[EngineKind::NoSimd, EngineKind::Default, EngineKind::Avx2, EngineKind::Naive]))
    }
}

fn api_rate(api: Api) -> RateKind {
    match api {
        Api::Wrapper => RateKind::Default,
        Api::Rate(r, _) => r,
    }
}

fn cfg_small(rng: &mut Rng, rate: RateKind) -> (usize, usize, usize) {
    let class = match rng.below(10) {
        0..=5 => Class::Tiny,
        6..=8 => Class::Small,
        _ => Class::Edge,
    };
    let (k, r) = gen::config(rng, class, rate);
    (k, r, *rng.pick(&[2usize, 4, 30, 62, 64, 66, 100, 130, 190]))
}

/// reset arguments that must fail for this rate
fn bad_reset_args(rng: &mut Rng, rate: RateKind, cur: (usize, usize, usize)) -> (usize, usize, usize, &'static str) {
    loop {
        let (k, r, s, name) = match rng.below(6) {
            // supported counts, invalid size: the configuration would otherwise be fine
            0 => (cur.0, cur.1, 0, "reset-zero-size"),
            1 => (cur.0, cur.1, cur.2 + 1, "reset-odd-size"),
            2 => {
                let (k, r, _) = cfg_small(rng, rate);
                (k, r, *rng.pick(&[0usize, 1, 3, 63, 65]), "reset-bad-size-new-counts")
            }
            // other rate side (forces the default codec to switch rate first)
            3 => {
                let (k, r, _) = cfg_small(rng, rate);
                (r, k, *rng.pick(&[0usize, 7]), "reset-bad-size-swapped-counts")
            }
            4 => (hostile_count(rng), hostile_count(rng), 64, "reset-unsupported-counts"),
            _ => (hostile_count(rng), hostile_count(rng), hostile_size(rng), "reset-hostile"),
        };
        let valid = gen::rate_ok(rate, k, r) && s != 0 && s % 2 == 0;
        if !valid {
            return (k, r, s, name);
        }
    }
}

enum EncOp {
    Add(Vec<u8>),
    Encode,
    Reset(usize, usize, usize),
}

fn encoder_twin(rng: &mut Rng, out: &mut CaseOut) {
    let api = pick_api(rng);
    let rate = api_rate(api);
    let poison = rng.chance(1, 3);
    let _p = Poison::new(poison, rng.next_u64());
    let mut cur = cfg_small(rng, rate);
    let mut trail: Vec<String> = vec![format!("new {}{cur:?}", api.name())];
    let mk = |c: (usize, usize, usize)| codec::make_enc(api, c.0, c.1, c.2, None);
    let (mut primary, mut twin) = match (mk(cur), mk(cur)) {
        (Ok(a), Ok(b)) => (a, b),
        _ => {
            out.violate("C07:new-failed", trail[0].clone());
            return;
        }
    };
    let mut count = 0usize;
    let mut failures = 0usize;
    let mut completed_after_failure = 0usize;
    let steps = rng.range(8, if crate::thorough() { 160 } else { 40 });
    for _ in 0..steps {
        // choose an operation; roughly a third are meant to fail
        let (op, name): (EncOp, String) = match rng.below(12) {
            0 => (EncOp::Add(rng.bytes(cur.2 + 2)), "add-wrong-size".into()),
            1 => (EncOp::Add(rng.bytes(1)), "add-odd".into()),
            2 => {
                let (k, r, s, n) = bad_reset_args(rng, rate, cur);
                (EncOp::Reset(k, r, s), format!("{n}({k},{r},{s})"))
            }
            3 => (EncOp::Encode, format!("encode@{count}/{}", cur.0)), // fails unless complete
            4 => {
                let c = cfg_small(rng, rate);
                (EncOp::Reset(c.0, c.1, c.2), format!("reset{c:?}"))
            }
            5 if count == cur.0 => (EncOp::Add(rng.bytes(cur.2)), "add-too-many".into()),
            _ => {
                if count < cur.0 {
                    (EncOp::Add(rng.bytes(cur.2)), "add".into())
                } else {
                    (EncOp::Encode, format!("encode@{count}/{}", cur.0))
                }
            }
        };
        trail.push(name.clone());
        let apply = |e: &mut dyn DynEnc, op: &EncOp| -> Result<Option<EncObs>, Error> {
            match op {
                EncOp::Add(s) => e.add(s).map(|()| None),
                EncOp::Encode => e.encode_obs(&[0, cur.1 - 1, cur.1]).map(Some),
                EncOp::Reset(k, r, s) => e.reset(*k, *r, *s).map(|()| None),
            }
        };
        out.evals += 1;
        let res_p = guarded(|| apply(primary.as_mut(), &op));
        let res_p = match res_p {
            Err(p) => {
                out.violate(
                    format!("C07:encoder:{}{}", if failures > 0 { "after-failed-call:" } else { "" }, panic_sig(&p)),
                    format!("{name} panicked on an object that saw {failures} failed calls: {p}; ops: {}", trail.join(" ; ")),
                );
                return;
            }
            Ok(r) => r,
        };
        match res_p {
            Err(_) => {
                failures += 1;
                out.tag(format!("failed:{}", name.split(['(', '@']).next().unwrap_or("")));
                // not applied to the twin
            }
            Ok(obs_p) => {
                let res_t = guarded(|| apply(twin.as_mut(), &op));
                match res_t {
                    Ok(Ok(obs_t)) => {
                        let same = match (&obs_p, &obs_t) {
                            (Some(a), Some(b)) => a.iter == b.iter && a.probes == b.probes,
                            (None, None) => true,
                            _ => false,
                        };
                        if !same {
                            out.violate(
                                "C07:encoder:result-differs-from-twin",
                                format!("{name}: result differs from an object that never saw the {failures} failed calls; ops: {}", trail.join(" ; ")),
                            );
                            return;
                        }
                    }
                    other => {
                        out.violate(
                            "C07:encoder:succeeds-where-twin-fails",
                            format!("{name} succeeded on the primary but the twin gave {:?}; ops: {}", other.map(|r| r.map(|_| ()).map_err(|e| e.to_string())), trail.join(" ; ")),
                        );
                        return;
                    }
                }
                match op {
                    EncOp::Add(_) => count += 1,
                    EncOp::Encode => {
                        count = 0;
                        if failures > 0 {
                            completed_after_failure += 1;
                        }
                    }
                    EncOp::Reset(k, r, s) => {
                        cur = (k, r, s);
                        count = 0;
                    }
                }
            }
        }
    }
    // finish the round on both: the final results must agree and be right
    let finish = |e: &mut dyn DynEnc, rng: &mut Rng, count: usize| -> Result<EncObs, Error> {
        let mut r2 = rng.clone();
        for _ in count..cur.0 {
            e.add(&r2.bytes(cur.2))?;
        }
        e.encode_obs(&[0])
    };
    let rp = guarded(|| finish(primary.as_mut(), rng, count));
    let rt = guarded(|| finish(twin.as_mut(), rng, count));
    match (rp, rt) {
        (Ok(Ok(a)), Ok(Ok(b))) => {
            if a.iter != b.iter {
                out.violate(
                    "C07:encoder:final-result-differs-from-twin",
                    format!("final round differs after {failures} failed calls; ops: {}", trail.join(" ; ")),
                );
            } else if failures > 0 {
                completed_after_failure += 1;
            }
        }
        (Err(p), _) => out.violate(
            format!("C07:encoder:after-failed-call:{}", panic_sig(&p)),
            format!("final round panicked after {failures} failed calls: {p}; ops: {}", trail.join(" ; ")),
        ),
        (a, b) => out.violate(
            "C07:encoder:final-round-failed",
            format!("final round: primary {:?} twin {:?}; ops: {}", a.map(|r| r.map(|_| ()).map_err(|e| e.to_string())), b.map(|r| r.map(|_| ()).map_err(|e| e.to_string())), trail.join(" ; ")),
        ),
    }
    out.tag(format!("api:{}", api.name()));
    if failures > 0 && completed_after_failure > 0 {
        out.nontrivial_key(&format!("enc/{}/{}", api.name(), trail.join(";")));
    }
    out.sample = Some(jobj(&[
        ("kind", jstr("encoder-twin")),
        ("failed_calls", failures.to_string()),
        ("ops", jlist(&trail.iter().take(14).map(|s| jstr(s)).collect::<Vec<_>>())),
    ]));
}

enum DecOp {
    AddO(usize, Vec<u8>),
    AddR(usize, Vec<u8>),
    Decode,
    Reset(usize, usize, usize),
}

struct DecRound {
    originals: Vec<Vec<u8>>,
    recovery: Vec<Vec<u8>>,
    got_o: Vec<usize>,
    got_r: Vec<usize>,
}

fn new_round(rng: &mut Rng, rate: RateKind, cur: (usize, usize, usize)) -> DecRound {
    let originals = gen::originals(rng, cur.0, cur.2);
    let recovery = codec::encode_fresh(Api::Rate(rate, EngineKind::NoSimd), cur.0, cur.1, cur.2, &originals)
        .expect("reference encode");
    DecRound {
        originals,
        recovery,
        got_o: Vec::new(),
        got_r: Vec::new(),
    }
}

fn decoder_twin(rng: &mut Rng, out: &mut CaseOut) {
    let api = pick_api(rng);
    let rate = api_rate(api);
    let poison = rng.chance(1, 3);
    let mut cur = cfg_small(rng, rate);
    let mut trail: Vec<String> = vec![format!("new {}{cur:?}", api.name())];
    let mut round = new_round(rng, rate, cur);
    let _p = Poison::new(poison, rng.next_u64());
    let mk = |c: (usize, usize, usize)| codec::make_dec(api, c.0, c.1, c.2, None);
    let (mut primary, mut twin) = match (mk(cur), mk(cur)) {
        (Ok(a), Ok(b)) => (a, b),
        _ => {
            out.violate("C07:new-failed", trail[0].clone());
            return;
        }
    };
    let mut failures = 0usize;
    let mut completed_after_failure = 0usize;
    let steps = rng.range(8, if crate::thorough() { 200 } else { 50 });
    let base = cur.0.next_power_of_two().max(cur.1.next_power_of_two());
    for _ in 0..steps {
        let (k, r, size) = cur;
        let have = round.got_o.len() + round.got_r.len();
        let (op, name): (DecOp, String) = match rng.below(16) {
            0 => (DecOp::AddO(rng.below(k), rng.bytes(size + 2)), "add-orig-wrong-size".into()),
            1 => (DecOp::AddR(rng.below(r), rng.bytes(size.saturating_sub(2))), "add-rec-wrong-size".into()),
            2 if !round.got_o.is_empty() => {
                let i = *rng.pick(&round.got_o);
                // the same shard again, or (half) other bytes of the right length
                let bytes = if rng.chance(1, 2) { round.originals[i].clone() } else { rng.bytes(size) };
                (DecOp::AddO(i, bytes), format!("add-orig-duplicate({i})"))
            }
            3 if !round.got_r.is_empty() => {
                let i = *rng.pick(&round.got_r);
                let bytes = if rng.chance(1, 2) { round.recovery[i].clone() } else { rng.bytes(size) };
                (DecOp::AddR(i, bytes), format!("add-rec-duplicate({i})"))
            }
            4 => {
                let i = k + rng.below(3);
                (DecOp::AddO(i, rng.bytes(size)), format!("add-orig-out-of-range({i})"))
            }
            5 => {
                let i = if rng.chance(1, 2) { r + rng.below(3) } else { hostile_index(rng, r, base).max(r) };
                (DecOp::AddR(i, rng.bytes(size)), format!("add-rec-out-of-range({i})"))
            }
            6 => {
                let (a, b, s, n) = bad_reset_args(rng, rate, cur);
                (DecOp::Reset(a, b, s), format!("{n}({a},{b},{s})"))
            }
            7 => (DecOp::Decode, format!("decode@{have}/{k}")), // premature unless enough
            8 => {
                let c = cfg_small(rng, rate);
                (DecOp::Reset(c.0, c.1, c.2), format!("reset{c:?}"))
            }
            _ => {
                if have < k || rng.chance(1, 3) {
                    // a fresh valid shard, if any is left
                    let free_o: Vec<usize> = (0..k).filter(|i| !round.got_o.contains(i)).collect();
                    let free_r: Vec<usize> = (0..r).filter(|i| !round.got_r.contains(i)).collect();
                    let use_rec = !free_r.is_empty() && (free_o.is_empty() || rng.chance(2, 3));
                    if use_rec {
                        let i = *rng.pick(&free_r);
                        (DecOp::AddR(i, round.recovery[i].clone()), format!("add-rec({i})"))
                    } else if !free_o.is_empty() {
                        let i = *rng.pick(&free_o);
                        (DecOp::AddO(i, round.originals[i].clone()), format!("add-orig({i})"))
                    } else {
                        (DecOp::Decode, format!("decode@{have}/{k}"))
                    }
                } else {
                    (DecOp::Decode, format!("decode@{have}/{k}"))
                }
            }
        };
        trail.push(name.clone());
        let apply = |d: &mut dyn DynDec, op: &DecOp| -> Result<Option<DecObs>, Error> {
            match op {
                DecOp::AddO(i, s) => d.add_original(*i, s).map(|()| None),
                DecOp::AddR(i, s) => d.add_recovery(*i, s).map(|()| None),
                DecOp::Decode => d.decode_obs(&[0, k - 1, k]).map(Some),
                DecOp::Reset(a, b, s) => d.reset(*a, *b, *s).map(|()| None),
            }
        };
        out.evals += 1;
        let res_p = match guarded(|| apply(primary.as_mut(), &op)) {
            Err(p) => {
                out.violate(
                    format!("C07:decoder:{}{}", if failures > 0 { "after-failed-call:" } else { "" }, panic_sig(&p)),
                    format!("{name} panicked on an object that saw {failures} failed calls: {p}; ops: {}", trail.join(" ; ")),
                );
                return;
            }
            Ok(r) => r,
        };
        match res_p {
            Err(_) => {
                failures += 1;
                out.tag(format!("failed:{}", name.split(['(', '@']).next().unwrap_or("")));
            }
            Ok(obs_p) => {
                match guarded(|| apply(twin.as_mut(), &op)) {
                    Ok(Ok(obs_t)) => {
                        let same = match (&obs_p, &obs_t) {
                            (Some(a), Some(b)) => a.iter == b.iter && a.probes == b.probes,
                            (None, None) => true,
                            _ => false,
                        };
                        if !same {
                            out.violate(
                                "C07:decoder:result-differs-from-twin",
                                format!("{name}: result differs from an object that never saw the {failures} failed calls; ops: {}", trail.join(" ; ")),
                            );
                            return;
                        }
                    }
                    other => {
                        out.violate(
                            "C07:decoder:succeeds-where-twin-fails",
                            format!("{name} succeeded on the primary but the twin gave {:?}; ops: {}", other.map(|r| r.map(|_| ()).map_err(|e| e.to_string())), trail.join(" ; ")),
                        );
                        return;
                    }
                }
                match op {
                    DecOp::AddO(i, _) => round.got_o.push(i),
                    DecOp::AddR(i, _) => round.got_r.push(i),
                    DecOp::Decode => {
                        // also against the ground truth: only shards that were
                        // accepted count, whatever failed in between
                        let want = expected(&round.originals, &round.got_o);
                        if obs_p.as_ref().map(|o| &o.iter) != Some(&want) {
                            out.violate(
                                "C07:decoder:wrong-after-failed-calls",
                                format!("{name}: restored shards are wrong after {failures} failed calls; ops: {}", trail.join(" ; ")),
                            );
                            return;
                        }
                        if failures > 0 {
                            completed_after_failure += 1;
                        }
                        round.got_o.clear();
                        round.got_r.clear();
                    }
                    DecOp::Reset(a, b, s) => {
                        cur = (a, b, s);
                        hooks_off(|| round = new_round(rng, rate, cur));
                    }
                }
            }
        }
    }
    out.tag(format!("api:{}", api.name()));
    if failures > 0 && completed_after_failure > 0 {
        out.nontrivial_key(&format!("dec/{}/{}", api.name(), trail.join(";")));
    }
    out.sample = Some(jobj(&[
        ("kind", jstr("decoder-twin")),
        ("failed_calls", failures.to_string()),
        ("ops", jlist(&trail.iter().take(14).map(|s| jstr(s)).collect::<Vec<_>>())),
    ]));
}

/// the reference encode must not be poisoned differently from run to run; it
/// is independent of poison anyway (that is C05), so just run it as is
fn hooks_off(f: impl FnOnce()) {
    f();
}
