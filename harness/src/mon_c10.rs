//! C10 - one-shot encode()/decode() equal the streaming API, errors included.
//! Oracle: the streaming API (ReedSolomonEncoder/Decoder) run on the same
//! arguments is the executable model; an error returned by the one-shot call
//! must in addition be literally true of the arguments (truth model below).

use std::collections::HashMap;
use std::sync::Mutex;

use reed_solomon_simd::{Error, ReedSolomonDecoder, ReedSolomonEncoder};

use crate::codec;
use crate::gen::{self, Class};
use crate::mon_c06::hostile_count;
use crate::util::{guarded, jobj, jstr, panic_sig, run_cases, Agg, CaseOut, Rng, RunCfg};

pub fn run(cfg: &RunCfg, agg: &Mutex<Agg>) {
    run_cases(agg, cfg, "encode", crate::count(cfg, 8000, 200_000), |cs, out| {
        encode_case(&mut Rng::new(cs), out);
    });
    run_cases(agg, cfg, "decode", crate::count(cfg, 12_000, 300_000), |cs, out| {
        decode_case(&mut Rng::new(cs), out);
    });
}

fn counts(rng: &mut Rng) -> (usize, usize) {
    if rng.chance(1, 8) {
        (hostile_count(rng), hostile_count(rng))
    } else {
        let class = match rng.below(10) {
            0..=5 => Class::Tiny,
            6..=8 => Class::Small,
            _ => Class::Edge,
        };
        gen::config(rng, class, codec::RateKind::Default)
    }
}

fn valid_size(s: usize) -> bool {
    s != 0 && s % 2 == 0
}

// ======================================================================
// encode

/// every error value that is literally true of encode(k, r, shards)
fn encode_truths(k: usize, r: usize, lens: &[usize]) -> Vec<Error> {
    let mut v = Vec::new();
    if !gen::envelope(k, r) {
        v.push(Error::UnsupportedShardCount { original_count: k, recovery_count: r });
    }
    if lens.len() < k {
        // any count of shards "given" that the call may have seen before stopping
        v.push(Error::TooFewOriginalShards { original_count: k, original_received_count: lens.len() });
    }
    if lens.len() > k {
        v.push(Error::TooManyOriginalShards { original_count: k });
    }
    if let Some(first) = lens.first() {
        if !valid_size(*first) {
            v.push(Error::InvalidShardSize { shard_bytes: *first });
        }
        for l in lens {
            if l != first {
                v.push(Error::DifferentShardSize { shard_bytes: *first, got: *l });
            }
        }
    }
    v
}

fn streaming_encode(k: usize, r: usize, shards: &[Vec<u8>]) -> Result<Vec<Vec<u8>>, Error> {
    if !ReedSolomonEncoder::supports(k, r) {
        return Err(Error::UnsupportedShardCount { original_count: k, recovery_count: r });
    }
    let Some(first) = shards.first() else {
        return Err(Error::TooFewOriginalShards { original_count: k, original_received_count: 0 });
    };
    let mut e = ReedSolomonEncoder::new(k, r, first.len())?;
    for s in shards {
        e.add_original_shard(s)?;
    }
    let res = e.encode()?;
    Ok(res.recovery_iter().map(<[u8]>::to_vec).collect())
}

/// An iterator whose `size_hint` is whatever the case says (within a few
/// items of the truth): legal, and nothing the result may depend on.
struct Hinted<I> {
    inner: I,
    hint: (usize, Option<usize>),
}

impl<I: Iterator> Iterator for Hinted<I> {
    type Item = I::Item;
    fn next(&mut self) -> Option<I::Item> {
        self.inner.next()
    }
    fn size_hint(&self) -> (usize, Option<usize>) {
        self.hint
    }
}

/// An iterator that is not fused: after its last item it answers None once
/// and then comes up with one more item. (`map_while`, `scan`, `from_fn`,
/// channel `try_iter` behave like this.) What a `for` loop - the streaming
/// reference - sees ends at the first None.
struct Resuming<'a, I> {
    inner: I,
    extra: Option<&'a Vec<u8>>,
    ended: bool,
}

impl<'a, I: Iterator<Item = &'a Vec<u8>>> Iterator for Resuming<'a, I> {
    type Item = &'a Vec<u8>;
    fn next(&mut self) -> Option<&'a Vec<u8>> {
        if !self.ended {
            let x = self.inner.next();
            if x.is_none() {
                self.ended = true;
            }
            x
        } else {
            self.extra.take()
        }
    }
}

/// a size_hint for an iterator that really yields n items: exact, vague, or
/// wrong by a little in either bound
fn some_hint(rng: &mut Rng, n: usize) -> (usize, Option<usize>) {
    match rng.below(6) {
        0 => (n, Some(n)),
        1 => (0, None),
        2 => (n + rng.range(1, 3), None),
        3 => (0, Some(n.saturating_sub(rng.range(1, 2)))),
        4 => (0, Some(0)),
        _ => (n.saturating_sub(1), Some(n + rng.range(1, 3))),
    }
}

fn encode_case(rng: &mut Rng, out: &mut CaseOut) {
    let (mut k, mut r) = counts(rng);
    let mut size = match rng.below(8) {
        0 => 0,
        1 => 1,
        2 => 63,
        _ => *rng.pick(&[2usize, 4, 30, 62, 64, 66, 100, 130]),
    };
    // now and then few but very long shards (64 KiB ... 3 MiB): where a
    // one-shot function would start to work piecewise
    if rng.chance(1, 50) {
        k = rng.range(1, 5);
        r = rng.range(1, 4);
        size = *rng.pick(&[65_536usize, 262_144, 1 << 20, (1 << 20) + 64, 2 << 20, 3 << 20]) + 2 * rng.below(40);
        out.tag("encode:very-long-shards");
    }
    let kk = k.min(70); // number of shards actually built
    let n = match rng.below(8) {
        0 => 0,
        1 => kk.saturating_sub(1),
        2 => kk + 1,
        3 => rng.below(kk + 3),
        _ => kk,
    };
    let mut shards: Vec<Vec<u8>> = (0..n).map(|_| rng.bytes(size)).collect();
    if n > 0 && rng.chance(1, 6) {
        let i = rng.below(n);
        let l = match rng.below(4) {
            0 => 0,
            1 => size + 1,
            2 => size + 2,
            _ => size.saturating_sub(2),
        };
        shards[i] = rng.bytes(l);
    }
    let lens: Vec<usize> = shards.iter().map(Vec::len).collect();
    let desc = format!("encode({k}, {r}, {} shards, lens {:?})", n, &lens[..lens.len().min(6)]);
    // preceded by a failing call of the same shape in a third of the cases
    if n > 0 && rng.chance(1, 3) {
        let _ = guarded(|| reed_solomon_simd::encode(k, r, &shards[..n - 1]));
        out.tag("encode:primed-by-other-call");
    }
    // The iterator handed to encode() is either the plain slice (exact
    // size_hint) or a filtering adaptor over a longer candidate list (upper
    // bound of size_hint larger than what is really yielded, lower bound 0).
    let decoys = if rng.chance(1, 2) { rng.range(1, 3) } else { 0 };
    let mut cands: Vec<(bool, &Vec<u8>)> = shards.iter().map(|s| (true, s)).collect();
    let junk = vec![0u8; size];
    for _ in 0..decoys {
        let at = rng.below(cands.len() + 1);
        cands.insert(at, (false, &junk));
    }
    let desc = if decoys > 0 { format!("{desc} via filter iterator ({decoys} filtered-out candidates)") } else { desc };
    // a successful call allocates the working space: bounded because size <= 130
    // a quarter of the calls: an iterator that states its own size_hint
    let hinted = if rng.chance(1, 4) { Some(some_hint(rng, n)) } else { None };
    let desc = match hinted {
        Some(h) => format!("{desc}, iterator with size_hint {h:?}"),
        None => desc,
    };
    if hinted.is_some() {
        out.tag("encode:stated-size-hint");
    }
    // a fifth of the calls: the shards are sub-slices of one flat buffer that
    // start at arbitrary (odd) addresses, not separately allocated vectors
    let flat_off = if rng.chance(1, 5) { Some(rng.range(1, 7)) } else { None };
    let mut flat: Vec<u8> = Vec::new();
    let mut spans: Vec<(usize, usize)> = Vec::new();
    if let Some(off) = flat_off {
        flat.resize(off, 0x5A);
        for sh in &shards {
            spans.push((flat.len(), sh.len()));
            flat.extend_from_slice(sh);
            // an odd gap now and then, so that consecutive shards differ in alignment
            if rng.chance(1, 2) {
                flat.push(0x5A);
            }
        }
        out.tag("encode:shards-at-odd-addresses");
    }
    // a sixth of the remaining calls: an iterator that is not fused
    let resuming = flat_off.is_none() && hinted.is_none() && rng.chance(1, 6);
    let extra_shard = rng.bytes(size);
    if resuming {
        out.tag("encode:non-fused-iterator");
    }
    let desc = if resuming { format!("{desc}, iterator that yields one more item after its first None") } else { desc };
    let one = guarded(|| {
        if resuming {
            reed_solomon_simd::encode(k, r, Resuming { inner: cands.iter().filter(|c| c.0).map(|c| c.1), extra: Some(&extra_shard), ended: false })
        } else if flat_off.is_some() {
            reed_solomon_simd::encode(k, r, spans.iter().map(|(at, len)| &flat[*at..*at + *len]))
        } else if let Some(hint) = hinted {
            reed_solomon_simd::encode(k, r, Hinted { inner: cands.iter().filter(|c| c.0).map(|c| c.1), hint })
        } else if decoys > 0 {
            reed_solomon_simd::encode(k, r, cands.iter().filter(|c| c.0).map(|c| c.1))
        } else {
            reed_solomon_simd::encode(k, r, &shards)
        }
    });
    let model = guarded(|| streaming_encode(k, r, &shards));
    out.evals += 1;
    let (one, model) = match (one, model) {
        (Ok(a), Ok(b)) => (a, b),
        (Err(p), _) => {
            out.violate(format!("C10:encode:{}", panic_sig(&p)), format!("{desc} panicked: {p}"));
            return;
        }
        (_, Err(p)) => {
            out.violate(format!("C10:streaming-encode:{}", panic_sig(&p)), format!("{desc}: streaming model panicked: {p}"));
            return;
        }
    };
    match (&one, &model) {
        (Ok(a), Ok(b)) => {
            if a != b {
                out.violate("C10:encode:differs-from-streaming", format!("{desc}: bytes differ from ReedSolomonEncoder"));
            }
            out.tag("encode:ok");
        }
        (Ok(_), Err(e)) => out.violate(
            "C10:encode:ok-where-streaming-fails",
            format!("{desc}: one-shot returned Ok, the streaming sequence fails with {e:?}"),
        ),
        (Err(e), Ok(_)) => out.violate(
            format!("C10:encode:err-where-streaming-succeeds:{}", codec::err_name(e)),
            format!("{desc}: one-shot returned {e:?}, the streaming sequence succeeds"),
        ),
        (Err(e), Err(_)) => {
            let truths = encode_truths(k, r, &lens);
            if !truths.contains(e) {
                out.violate(
                    format!("C10:encode:untruthful:{}", codec::err_name(e)),
                    format!("{desc}: returned {e:?}, which is not true of the arguments (true: {truths:?})"),
                );
            }
            out.tag(format!("encode:err:{}", codec::err_name(e)));
        }
    }
    if decoys > 0 {
        out.tag("encode:inexact-size-hint-iterator");
    }
    out.nontrivial_key(&format!("{desc}/{}", rng.next_u64()));
    out.sample = Some(jobj(&[("call", jstr(&desc))]));
}

// ======================================================================
// decode

/// every error value that is literally true of decode(k, r, originals, recovery)
fn decode_truths(k: usize, r: usize, o: &[(usize, Vec<u8>)], rec: &[(usize, Vec<u8>)]) -> Vec<Error> {
    let mut v = Vec::new();
    if !gen::envelope(k, r) {
        v.push(Error::UnsupportedShardCount { original_count: k, recovery_count: r });
    }
    // the shard size may be inferred from the first recovery shard or, when
    // there is none, from the first original shard
    let mut inferred: Vec<usize> = Vec::new();
    if let Some(f) = rec.first() {
        inferred.push(f.1.len());
    } else if let Some(f) = o.first() {
        inferred.push(f.1.len());
    }
    for sb in &inferred {
        if !valid_size(*sb) {
            v.push(Error::InvalidShardSize { shard_bytes: *sb });
        }
        for (_, s) in o.iter().chain(rec.iter()) {
            if s.len() != *sb {
                v.push(Error::DifferentShardSize { shard_bytes: *sb, got: s.len() });
            }
        }
    }
    for (n, (i, _)) in o.iter().enumerate() {
        if *i >= k {
            v.push(Error::InvalidOriginalShardIndex { original_count: k, index: *i });
        }
        if o[..n].iter().any(|(j, _)| j == i) {
            v.push(Error::DuplicateOriginalShardIndex { index: *i });
        }
    }
    for (n, (i, _)) in rec.iter().enumerate() {
        if *i >= r {
            v.push(Error::InvalidRecoveryShardIndex { recovery_count: r, index: *i });
        }
        if rec[..n].iter().any(|(j, _)| j == i) {
            v.push(Error::DuplicateRecoveryShardIndex { index: *i });
        }
    }
    if o.len() + rec.len() < k {
        v.push(Error::NotEnoughShards {
            original_count: k,
            original_received_count: o.len(),
            recovery_received_count: rec.len(),
        });
    }
    v
}

/// the streaming sequence the property names: a ReedSolomonDecoder for the
/// inferred shard size, originals then recovery shards added, decode
fn streaming_decode(
    k: usize,
    r: usize,
    o: &[(usize, Vec<u8>)],
    rec: &[(usize, Vec<u8>)],
) -> Result<HashMap<usize, Vec<u8>>, Error> {
    if !ReedSolomonDecoder::supports(k, r) {
        return Err(Error::UnsupportedShardCount { original_count: k, recovery_count: r });
    }
    let size = if let Some(f) = rec.first() {
        f.1.len()
    } else if let Some(f) = o.first() {
        f.1.len()
    } else {
        return Err(Error::NotEnoughShards { original_count: k, original_received_count: 0, recovery_received_count: 0 });
    };
    let mut d = ReedSolomonDecoder::new(k, r, size)?;
    for (i, s) in o {
        d.add_original_shard(*i, s)?;
    }
    for (i, s) in rec {
        d.add_recovery_shard(*i, s)?;
    }
    let res = d.decode()?;
    Ok(res.restored_original_iter().map(|(i, s)| (i, s.to_vec())).collect())
}

fn decode_case(rng: &mut Rng, out: &mut CaseOut) {
    let (mut k, mut r) = counts(rng);
    let mut size = *rng.pick(&[2usize, 4, 30, 62, 64, 66, 100, 130]);
    if rng.chance(1, 50) {
        k = rng.range(1, 5);
        r = rng.range(1, 4);
        size = *rng.pick(&[65_536usize, 262_144, 1 << 20, (1 << 20) + 64, 2 << 20]) + 2 * rng.below(40);
        out.tag("decode:very-long-shards");
    }
    let supported = gen::envelope(k, r);
    // real data when the configuration is small and supported
    let real = supported && k <= 70 && r <= 70;
    let (originals, recovery) = if real {
        let o = gen::originals(rng, k, size);
        let rec = reed_solomon_simd::encode(k, r, &o).unwrap_or_default();
        (o, rec)
    } else {
        (
            (0..k.min(8)).map(|_| rng.bytes(size)).collect(),
            (0..r.min(8)).map(|_| rng.bytes(size)).collect(),
        )
    };
    let ko = originals.len();
    let kr = recovery.len();
    // base: a received set; half of the cases have no recovery shards at all
    let no_recovery = rng.chance(1, 2);
    let mut o: Vec<(usize, Vec<u8>)> = Vec::new();
    let mut rec: Vec<(usize, Vec<u8>)> = Vec::new();
    if real {
        let (oi, ri, _) = gen::received_set(rng, k, r);
        let all_o = no_recovery && rng.chance(1, 2);
        for i in 0..k {
            if all_o || oi.contains(&i) {
                o.push((i, originals[i].clone()));
            }
        }
        if !no_recovery {
            for i in ri {
                rec.push((i, recovery[i].clone()));
            }
        }
    } else {
        for i in 0..ko {
            if rng.chance(2, 3) {
                o.push((i, originals[i].clone()));
            }
        }
        if !no_recovery {
            for i in 0..kr {
                if rng.chance(2, 3) {
                    rec.push((i, recovery[i].clone()));
                }
            }
        }
    }
    if rng.chance(1, 2) {
        rng.shuffle(&mut o);
        rng.shuffle(&mut rec);
    }
    // mutations
    let mut muts: Vec<&'static str> = Vec::new();
    let nm = match rng.below(5) {
        0 | 1 => 0,
        2 | 3 => 1,
        _ => 2,
    };
    for _ in 0..nm {
        match rng.below(9) {
            0 if !o.is_empty() => {
                let d = o[rng.below(o.len())].clone();
                let at = rng.below(o.len() + 1);
                o.insert(at, d);
                muts.push("dup-original");
            }
            1 if !rec.is_empty() => {
                let d = rec[rng.below(rec.len())].clone();
                rec.push(d);
                muts.push("dup-recovery");
            }
            2 if !o.is_empty() => {
                let n = o.len();
                o[rng.below(n)].0 = *rng.pick(&[k, k.saturating_add(1), 65536usize.max(k), usize::MAX, usize::MAX - 1]);
                muts.push("original-index-out-of-range");
            }
            3 if !rec.is_empty() => {
                let n = rec.len();
                rec[rng.below(n)].0 = *rng.pick(&[r, r.saturating_add(1), 65536usize.max(r), usize::MAX]);
                muts.push("recovery-index-out-of-range");
            }
            4 if !o.is_empty() => {
                let n = o.len();
                let l = *rng.pick(&[0usize, 1, size + 1, size + 2, size.saturating_sub(2)]);
                o[rng.below(n)].1 = rng.bytes(l);
                muts.push("original-wrong-size");
            }
            5 if !rec.is_empty() => {
                let n = rec.len();
                let l = *rng.pick(&[0usize, 1, size + 1, size + 2]);
                rec[rng.below(n)].1 = rng.bytes(l);
                muts.push("recovery-wrong-size");
            }
            6 => {
                // all shards of one odd / zero size
                let l = *rng.pick(&[0usize, 1, 3, 65]);
                for s in o.iter_mut().chain(rec.iter_mut()) {
                    s.1 = vec![7u8; l];
                }
                muts.push("all-invalid-size");
            }
            7 if !o.is_empty() => {
                o.pop();
                muts.push("drop-original");
            }
            _ => {
                if !rec.is_empty() {
                    rec.pop();
                    muts.push("drop-recovery");
                }
            }
        }
    }
    let desc = format!(
        "decode({k}, {r}, originals idx/len {:?}, recovery idx/len {:?}) muts={muts:?}",
        o.iter().take(6).map(|(i, s)| (*i, s.len())).collect::<Vec<_>>(),
        rec.iter().take(6).map(|(i, s)| (*i, s.len())).collect::<Vec<_>>()
    );
    // The one-shot functions are plain functions: what a call returns must not
    // depend on earlier calls. In a third of the cases the judged call is
    // preceded, on this thread, by a failing call with the same counts and
    // shard size (too few shards, at least one recovery shard).
    if real && rng.chance(1, 3) && !recovery.is_empty() && k >= 2 {
        let ri = rng.below(kr);
        let few_o: Vec<(usize, &Vec<u8>)> = (0..rng.below(k - 1)).map(|i| (i, &originals[i])).collect();
        let prim = guarded(|| reed_solomon_simd::decode(k, r, few_o, [(ri, &recovery[ri])]));
        out.tag(match prim {
            Ok(Err(_)) => "decode:primed-by-failing-call",
            _ => "decode:primed-by-other-call",
        });
    }
    // iterators with inexact size_hint in half of the cases (see encode_case)
    let inexact = rng.chance(1, 2);
    let junk = (usize::MAX, Vec::new());
    let mut oc: Vec<(bool, &(usize, Vec<u8>))> = o.iter().map(|x| (true, x)).collect();
    let mut rc: Vec<(bool, &(usize, Vec<u8>))> = rec.iter().map(|x| (true, x)).collect();
    if inexact {
        for _ in 0..rng.range(1, 3) {
            let at = rng.below(oc.len() + 1);
            oc.insert(at, (false, &junk));
            let at = rng.below(rc.len() + 1);
            rc.insert(at, (false, &junk));
        }
    }
    let hinted = if rng.chance(1, 4) {
        let no = oc.iter().filter(|c| c.0).count();
        let nr = rc.iter().filter(|c| c.0).count();
        Some((some_hint(rng, no), some_hint(rng, nr)))
    } else {
        None
    };
    if hinted.is_some() {
        out.tag("decode:stated-size-hint");
    }
    let one = guarded(|| {
        let oi = oc.iter().filter(|c| c.0).map(|c| (c.1 .0, &c.1 .1));
        let ri = rc.iter().filter(|c| c.0).map(|c| (c.1 .0, &c.1 .1));
        match hinted {
            Some((ho, hr)) => reed_solomon_simd::decode(k, r, Hinted { inner: oi, hint: ho }, Hinted { inner: ri, hint: hr }),
            None => reed_solomon_simd::decode(k, r, oi, ri),
        }
    });
    let model = guarded(|| streaming_decode(k, r, &o, &rec));
    out.evals += 1;
    let (one, model) = match (one, model) {
        (Ok(a), Ok(b)) => (a, b),
        (Err(p), _) => {
            out.violate(format!("C10:decode:{}", panic_sig(&p)), format!("{desc} panicked: {p}"));
            return;
        }
        (_, Err(p)) => {
            out.violate(format!("C10:streaming-decode:{}", panic_sig(&p)), format!("{desc}: streaming model panicked: {p}"));
            return;
        }
    };
    let kind = if rec.is_empty() { "no-recovery" } else { "with-recovery" };
    if inexact {
        out.tag("decode:inexact-size-hint-iterators");
    }
    match (&one, &model) {
        (Ok(a), Ok(b)) => {
            if a != b {
                out.violate(
                    format!("C10:decode:differs-from-streaming:{kind}"),
                    format!("{desc}: one-shot restored {} shards, ReedSolomonDecoder {}", a.len(), b.len()),
                );
            } else if real && muts.is_empty() {
                // and right
                for (i, s) in a {
                    if originals.get(*i) != Some(s) {
                        out.violate("C10:decode:wrong", format!("{desc}: restored original {i} is wrong"));
                        break;
                    }
                }
            }
            out.tag(format!("decode:ok:{kind}"));
        }
        (Ok(a), Err(e)) => out.violate(
            format!("C10:decode:ok-where-streaming-fails:{kind}:{}", codec::err_name(e)),
            format!("{desc}: one-shot returned Ok({} entries), the streaming sequence fails with {e:?}", a.len()),
        ),
        (Err(e), Ok(_)) => out.violate(
            format!("C10:decode:err-where-streaming-succeeds:{kind}:{}", codec::err_name(e)),
            format!("{desc}: one-shot returned {e:?}, the streaming sequence succeeds"),
        ),
        (Err(e), Err(_)) => {
            let truths = decode_truths(k, r, &o, &rec);
            if !truths.contains(e) {
                out.violate(
                    format!("C10:decode:untruthful:{kind}:{}", codec::err_name(e)),
                    format!("{desc}: returned {e:?}, which is not true of the arguments (true: {:?})", &truths[..truths.len().min(6)]),
                );
            }
            out.tag(format!("decode:err:{kind}:{}", codec::err_name(e)));
        }
    }
    for m in &muts {
        out.tag(format!("mut:{m}"));
    }
    out.nontrivial_key(&format!("{desc}/{}", rng.next_u64()));
    out.sample = Some(jobj(&[("call", jstr(&desc))]));
}
