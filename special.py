"""Process-level stages: Miri (UB interpreter, target-feature check, data races,
deadlock) and ThreadSanitizer. Each returns a stage result in the shape
check.py expects; `result` mimics rsmon's JSON."""
import concurrent.futures
import os
import re
import subprocess
import time

ROOT = os.path.dirname(os.path.abspath(__file__))
HARNESS = os.path.join(ROOT, "harness")
TARGET = os.path.join(ROOT, "target")


def base_env():
    env = dict(os.environ)
    env.update({"CARGO_NET_OFFLINE": "true", "CARGO_TERM_COLOR": "never"})
    for k in ("RUSTFLAGS", "CARGO_ENCODED_RUSTFLAGS", "CARGO_BUILD_TARGET", "MIRIFLAGS"):
        env.pop(k, None)
    return env


def empty_result():
    return {"cases": 0, "evaluations": 0, "distinct_nontrivial": 0, "tags": {}, "samples": [],
            "violation_count": 0, "violations": [], "inconclusive": [], "wall_s": 0.0,
            "profile": "special", "hooks": False, "engines": []}


def miri_cmd(proc):
    """proc: dict(name, target(optional), rustflags, features, miriflags, args)"""
    tdir = os.path.join(TARGET, "miri-" + proc["build_id"])
    cmd = ["cargo", "+nightly", "miri", "run", "--bin", "rsmiri", "--no-default-features"]
    if proc.get("features"):
        cmd += ["--features", proc["features"]]
    if proc.get("target"):
        cmd += ["--target", proc["target"]]
    cmd += ["--"] + proc["args"]
    env = base_env()
    env["CARGO_TARGET_DIR"] = tdir
    if proc.get("rustflags"):
        env["RUSTFLAGS"] = proc["rustflags"]
    if proc.get("miriflags"):
        env["MIRIFLAGS"] = proc["miriflags"]
    return cmd, env


UB_RE = re.compile(r"error: (Undefined Behavior|unsupported operation|the evaluated program deadlocked|abnormal termination|post-monomorphization error|memory leaked)[^\n]*", re.I)


def classify_miri(stderr):
    """-> (verdict, signature, excerpt); verdict in ok / violation / inconclusive"""
    m = UB_RE.search(stderr)
    if not m:
        if "error: could not compile" in stderr or "error[E" in stderr:
            return "inconclusive", None, "harness did not compile under Miri: " + stderr[-600:]
        return "ok", None, ""
    line = m.group(0)
    excerpt = stderr[m.start():m.start() + 1800]
    kind = m.group(1).lower()
    if kind == "unsupported operation":
        return "inconclusive", None, "Miri cannot execute this: " + line
    if kind == "memory leaked":
        return "ok", None, ""
    # signature: error class + first in-repo frame
    frame = re.search(r"-->\s*(\S*?(?:/repo/src|reed-solomon-simd)[^\s:]*:\d+)", excerpt)
    if not frame:
        frame = re.search(r"-->\s*(\S+:\d+)", excerpt)
    where = frame.group(1).split("/")[-1] if frame else "?"
    short = re.sub(r"0x[0-9a-f]+|alloc\d+|\d{3,}", "N", line)[:110]
    return "violation", f"miri:{short}:{where}", excerpt


def compare_lines(got, want, prefixes):
    g = [l for l in got.splitlines() if l.split(" ")[0] in prefixes]
    w = [l for l in want.splitlines() if l.split(" ")[0] in prefixes]
    diffs = [(a, b) for a, b in zip(g, w) if a != b]
    return len(g), len(w), diffs


def native_rsmiri(build, log):
    binary, _ = build("release")
    return os.path.join(os.path.dirname(binary), "rsmiri")


def run_miri_diff(prop, stage, tier, seed, build, log):
    """Several Miri processes in parallel; each compared with a native reference run."""
    res = {"name": stage["name"], "result": empty_result(), "violations": [], "inconclusive": []}
    r = res["result"]
    t0 = time.time()
    try:
        native = native_rsmiri(build, log)
    except Exception as e:  # BuildError
        res["inconclusive"].append(f"stage {stage['name']}: native reference build failed: {e}")
        res["result"] = None
        return res
    procs = []
    for p in stage["procs"]:
        p = dict(p)
        p["args"] = [a.replace("{seed}", str(seed % 100000)) for a in p["args"]]
        p["ref_args"] = [a.replace("{seed}", str(seed % 100000)) for a in p["ref_args"]]
        procs.append(p)
    timeout = stage.get("timeout", 2400)

    def one(p):
        cmd, env = miri_cmd(p)
        t = time.time()
        try:
            cp = subprocess.run(cmd, cwd=HARNESS, env=env, stdout=subprocess.PIPE, stderr=subprocess.PIPE,
                                text=True, timeout=timeout)
            return p, cp.returncode, cp.stdout, cp.stderr, time.time() - t
        except subprocess.TimeoutExpired as e:
            return p, None, (e.stdout or b"").decode() if isinstance(e.stdout, bytes) else (e.stdout or ""), "", time.time() - t

    with concurrent.futures.ThreadPoolExecutor(max_workers=len(procs)) as ex:
        outs = list(ex.map(one, procs))
    for p, rc, out, err, wall in outs:
        name = p["name"]
        log(f"{prop} {stage['name']}/{name}: exit {rc} in {wall:.0f}s")
        if rc is None:
            res["inconclusive"].append(f"stage {stage['name']}/{name}: Miri run exceeded {timeout}s (inconclusive)")
            continue
        verdict, sig, excerpt = classify_miri(err)
        if verdict == "violation":
            res["violations"].append({"sig": sig, "detail": f"{name}: {excerpt}", "stage": stage["name"],
                                      "rsmon_stage": None, "case_seed": None, "build": "miri"})
            r["violation_count"] += 1
            continue
        if verdict != "inconclusive" and rc != 0 and "panicked at" in err:
            # the interpreted program itself panicked: a failed assertion of the
            # workload (e.g. a restored shard is wrong) or a panic inside the crate
            m = re.search(r"panicked at ([^\n]*)\n([^\n]*)", err)
            where = m.group(1).split("/")[-1] if m else "?"
            res["violations"].append({"sig": f"miri-run:panic:{name}:{re.sub(r'[0-9]+', 'N', where)[:60]}",
                                      "detail": f"{name}: {err[m.start():m.start() + 800] if m else err[-800:]}",
                                      "stage": stage["name"], "rsmon_stage": None, "case_seed": None, "build": "miri"})
            r["violation_count"] += 1
            continue
        if verdict == "inconclusive" or rc != 0:
            res["inconclusive"].append(f"stage {stage['name']}/{name}: {excerpt or 'exit ' + str(rc) + ': ' + err[-400:]}")
            continue
        ref = subprocess.run([native] + p["ref_args"], stdout=subprocess.PIPE, stderr=subprocess.PIPE, text=True)
        prefixes = ("case", "encode", "encode-again", "decode", "eval_poly", "thread")
        ng, nw, diffs = compare_lines(out, ref.stdout, prefixes)
        r["cases"] += 1
        r["evaluations"] += ng
        r["distinct_nontrivial"] += ng
        r["tags"][f"miri:{name}:lines-compared"] = ng
        if ng == 0 or ng != nw:
            res["inconclusive"].append(f"stage {stage['name']}/{name}: {ng} result lines under Miri, {nw} in the native reference")
        for a, b in diffs[:3]:
            res["violations"].append({"sig": f"miri-digest-differs:{name}",
                                      "detail": f"{name}: interpreted run printed '{a}', native reference '{b}'",
                                      "stage": stage["name"], "rsmon_stage": None, "case_seed": None, "build": "miri"})
            r["violation_count"] += 1
        # expectations on the run's own report lines (C14)
        for exp in p.get("expect", []):
            if not re.search(exp["regex"], out):
                if exp.get("inconclusive"):
                    res["inconclusive"].append(f"stage {stage['name']}/{name}: {exp['what']} (output: {out[:200]!r})")
                else:
                    res["violations"].append({"sig": f"miri-expect:{name}:{exp['id']}",
                                              "detail": f"{name}: {exp['what']}; output: {out[:600]}",
                                              "stage": stage["name"], "rsmon_stage": None, "case_seed": None, "build": "miri"})
                    r["violation_count"] += 1
        r["samples"].append({"stage": stage["name"], "case_seed": seed, "case": {
            "miri_process": name, "args": p["args"], "first_lines": out.splitlines()[:4], "wall_s": round(wall)}})
    r["wall_s"] = round(time.time() - t0, 1)
    return res


def run_miri_race(prop, stage, tier, seed, build, log):
    """Two many-seeds Miri runs in parallel: default memory model, and weak-memory
    emulation switched off (each variant reports races the other can miss)."""
    res = {"name": stage["name"], "result": empty_result(), "violations": [], "inconclusive": []}
    r = res["result"]
    t0 = time.time()
    n = stage.get("seeds", 16)
    half = max(1, n // 2)
    lo = (seed % 1000) * 100
    variants = [("default", f"-Zmiri-many-seeds={lo}..{lo + half}"),
                ("no-weak-memory-emulation", f"-Zmiri-disable-weak-memory-emulation -Zmiri-many-seeds={lo + half}..{lo + 2 * half}")]
    timeout = stage.get("timeout", 2400)

    def one(v):
        name, flags = v
        p = {"build_id": "none", "args": ["race", str((seed + (0 if name == "default" else 1)) % 100000)], "miriflags": flags}
        cmd, env = miri_cmd(p)
        try:
            cp = subprocess.run(cmd, cwd=HARNESS, env=env, stdout=subprocess.PIPE, stderr=subprocess.PIPE, text=True,
                                timeout=timeout)
            return name, cp
        except subprocess.TimeoutExpired:
            return name, None

    # both at once (cargo's own lock serialises the shared build)
    with concurrent.futures.ThreadPoolExecutor(max_workers=2) as ex:
        both = list(ex.map(one, variants))
    first, rest = both[:1], both[1:]
    tried_total = 0
    all_lines = []
    for name, cp in first + rest:
        if cp is None:
            res["inconclusive"].append(f"stage {stage['name']}/{name}: Miri many-seeds run exceeded {timeout}s (inconclusive)")
            continue
        log(f"{prop} {stage['name']}/{name}: exit {cp.returncode} in {time.time() - t0:.0f}s")
        verdict, sig, excerpt = classify_miri(cp.stderr)
        if "Data race detected" in cp.stderr:
            m = re.search(r"Data race detected[^\n]*", cp.stderr)
            frames = re.findall(r"-->\s*(\S+:\d+)", cp.stderr[m.start():m.start() + 3000])
            inrepo = next((f for f in frames if "/src/" in f and "rustlib" not in f and "rsmiri" not in f), frames[0] if frames else "?")
            sig = "miri:data-race:" + inrepo.split("/")[-1]
            verdict, excerpt = "violation", cp.stderr[max(0, m.start() - 200):m.start() + 1800]
        if verdict == "violation":
            res["violations"].append({"sig": sig, "detail": f"{name}: {excerpt}", "stage": stage["name"],
                                      "rsmon_stage": None, "case_seed": None, "build": "miri"})
            r["violation_count"] += 1
        elif verdict == "inconclusive" or cp.returncode != 0:
            res["inconclusive"].append(f"stage {stage['name']}/{name}: {excerpt or cp.stderr[-400:]}")
        tried = len(re.findall(r"Trying seed", cp.stderr))
        tried_total += tried
        r["tags"][f"miri-race:{name}:schedules(seeds)"] = tried
        lines = [l for l in cp.stdout.splitlines() if l.startswith("thread")]
        all_lines += lines
        # all seeds of one variant run the same workload: same digests expected
        by_thread = {}
        for l in lines:
            f = l.split()
            by_thread.setdefault((f[1], f[3]), set()).add(f[4])
        for k, v in by_thread.items():
            if len(v) > 1:
                res["violations"].append({"sig": "miri-race:digest-depends-on-schedule",
                                          "detail": f"{name}: thread {k}: digests {sorted(v)} under different Miri schedules",
                                          "stage": stage["name"], "rsmon_stage": None, "case_seed": None, "build": "miri"})
                r["violation_count"] += 1
    r["cases"] = tried_total
    r["evaluations"] = len(all_lines)
    r["distinct_nontrivial"] = tried_total
    r["tags"]["miri-race:thread-results"] = len(all_lines)
    r["samples"].append({"stage": stage["name"], "case_seed": seed,
                         "case": {"miri_many_seeds": [v[1] for v in variants], "first_lines": all_lines[:4]}})
    if tried_total == 0:
        res["inconclusive"].append(f"stage {stage['name']}: Miri reported no seeds tried")
    r["wall_s"] = round(time.time() - t0, 1)
    return res


def run_tsan(prop, stage, tier, seed, build, log):
    """C16 child schedules under ThreadSanitizer (hooks compiled out)."""
    res = {"name": stage["name"], "result": empty_result(), "violations": [], "inconclusive": []}
    r = res["result"]
    t0 = time.time()
    try:
        tsan_bin, _ = build("tsan")
        native, _ = build("release")
    except Exception as e:
        res["inconclusive"].append(f"stage {stage['name']}: build failed: {str(e).splitlines()[0]}")
        res["result"] = None
        return res
    n = stage.get("schedules", 100)
    seeds = [(seed * 7919 + i * 104729 + 17) % (1 << 62) for i in range(n)]
    env = base_env()
    env["TSAN_OPTIONS"] = "halt_on_error=0:report_signal_unsafe=0:exitcode=66"

    def one(s):
        try:
            cp = subprocess.run([tsan_bin, "C16CHILD", "--case", str(s)], env=env, stdout=subprocess.PIPE,
                                stderr=subprocess.PIPE, text=True, timeout=600)
        except subprocess.TimeoutExpired:
            return s, None, "", ""
        ref = subprocess.run([native, "C16REF", "--case", str(s)], stdout=subprocess.PIPE, text=True)
        return s, cp, ref.stdout, None

    with concurrent.futures.ThreadPoolExecutor(max_workers=4) as ex:
        outs = list(ex.map(one, seeds))
    seen = set()
    for s, cp, ref, _ in outs:
        if cp is None:
            res["inconclusive"].append(f"stage {stage['name']}: schedule {s} exceeded 600 s under TSan")
            continue
        r["cases"] += 1
        if "WARNING: ThreadSanitizer" in cp.stderr:
            for m in re.finditer(r"WARNING: ThreadSanitizer: ([a-z \-]+)(.*?)(?=\n=+\n|\Z)", cp.stderr, re.S):
                frames = re.findall(r"#\d+ (\S+)", m.group(2))
                first = next((f for f in frames if "reed_solomon_simd" in f), frames[0] if frames else "?")
                sig = f"tsan:{m.group(1).strip()}:{first[:80]}"
                if sig not in seen:
                    seen.add(sig)
                    res["violations"].append({"sig": sig, "detail": f"schedule {s}: " + m.group(0)[:1500],
                                              "stage": stage["name"], "rsmon_stage": None, "case_seed": None,
                                              "build": "tsan"})
                r["violation_count"] += 1
        elif cp.returncode != 0:
            res["inconclusive"].append(f"stage {stage['name']}: schedule {s} exited with {cp.returncode}: {cp.stderr[-300:]}")
            continue
        got = sorted(l for l in cp.stdout.splitlines() if l.startswith("role"))
        want = sorted(l for l in ref.splitlines() if l.startswith("role"))
        r["evaluations"] += len(got)
        if got != want:
            res["violations"].append({"sig": "tsan-run:result-differs-from-sequential",
                                      "detail": f"schedule {s}: {got[:3]} vs sequential {want[:3]}",
                                      "stage": stage["name"], "rsmon_stage": None, "case_seed": None, "build": "tsan"})
            r["violation_count"] += 1
        if any(l.startswith("panic") for l in cp.stdout.splitlines()):
            res["violations"].append({"sig": "tsan-run:panic", "detail": f"schedule {s}: {cp.stdout[:400]}",
                                      "stage": stage["name"], "rsmon_stage": None, "case_seed": None, "build": "tsan"})
            r["violation_count"] += 1
    # the in-process stages under TSan: the migration pool (objects hopping
    # between threads) and the lifecycle churn (objects born and dropped on all
    # threads at once)
    import json as _json
    import tempfile
    for inproc, scale in (("migration", "0.5"), ("churn", "0.3")):
        tmp = tempfile.NamedTemporaryFile(suffix=".json", delete=False).name
        try:
            cp = subprocess.run([tsan_bin, "C16", "--tier", tier, "--seed", str(seed), "--stage", inproc,
                                 "--scale", scale, "--out", tmp], env=env, stdout=subprocess.PIPE,
                                stderr=subprocess.PIPE, text=True, timeout=1800)
            if "WARNING: ThreadSanitizer" in cp.stderr:
                for m in re.finditer(r"WARNING: ThreadSanitizer: ([a-z \-]+)(.*?)(?=\n=+\n|\Z)", cp.stderr, re.S):
                    frames = re.findall(r"#\d+ (\S+)", m.group(2))
                    first = next((f for f in frames if "reed_solomon_simd" in f), frames[0] if frames else "?")
                    sig = f"tsan:{m.group(1).strip()}:{first[:80]}"
                    if sig not in seen:
                        seen.add(sig)
                        res["violations"].append({"sig": sig, "detail": f"{inproc}: " + m.group(0)[:1500],
                                                  "stage": stage["name"], "rsmon_stage": None, "case_seed": None,
                                                  "build": "tsan"})
                    r["violation_count"] += 1
            if os.path.exists(tmp) and os.path.getsize(tmp) > 0:
                mj = _json.load(open(tmp))
                r["evaluations"] += mj["evaluations"]
                r["tags"][f"tsan:{inproc}-evaluations"] = mj["evaluations"]
                for v in mj["violations"]:
                    res["violations"].append({"sig": v["sig"], "detail": v["detail"], "stage": stage["name"],
                                              "rsmon_stage": None, "case_seed": None, "build": "tsan"})
                    r["violation_count"] += 1
            elif cp.returncode != 0:
                res["inconclusive"].append(f"stage {stage['name']}: {inproc} under TSan exited with {cp.returncode}: {cp.stderr[-300:]}")
        except subprocess.TimeoutExpired:
            res["inconclusive"].append(f"stage {stage['name']}: {inproc} under TSan exceeded 1800 s")
        finally:
            if os.path.exists(tmp):
                os.remove(tmp)
    r["distinct_nontrivial"] = r["cases"]
    r["tags"]["tsan:schedules"] = r["cases"]
    r["tags"]["tsan:reports"] = len(seen)
    r["samples"].append({"stage": stage["name"], "case_seed": seed,
                         "case": {"tsan_schedules": n, "first_seed": seeds[0] if seeds else None}})
    r["wall_s"] = round(time.time() - t0, 1)
    return res


def run(prop, stage, tier, seed, build, log):
    kind = stage["kind"]
    if kind == "miri-diff":
        return run_miri_diff(prop, stage, tier, seed, build, log)
    if kind == "miri-race":
        return run_miri_race(prop, stage, tier, seed, build, log)
    if kind == "tsan":
        return run_tsan(prop, stage, tier, seed, build, log)
    raise ValueError(kind)
