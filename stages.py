"""Which stages decide which property, per tier (see DESIGN.md section 3/4)."""


def rs(name, build, scale=1.0, **kw):
    d = {"name": name, "build": build, "scale": scale}
    d.update(kw)
    return d


# the same monitor under both arithmetic semantics
def both(quick_scale=1.0):
    return [rs("checked", "checked", quick_scale), rs("release", "release", quick_scale)]


ASAN_ENV = {"ASAN_OPTIONS": "detect_leaks=0:halt_on_error=1:abort_on_error=0:exitcode=23"}


def asan(scale, args=None):
    return rs("asan", "asan", scale, env=ASAN_ENV, args=args or [])


def valgrind(scale):
    return rs("valgrind", "release", scale, valgrind=True,
              wrapper=["valgrind", "--tool=memcheck", "--error-exitcode=0", "--leak-check=no", "-q"],
              args=["--threads", "4"])


def mp(name, build_id, args, ref_args, rustflags=None, target=None, features=None, expect=None):
    return {"name": name, "build_id": build_id, "args": args, "ref_args": ref_args, "rustflags": rustflags,
            "target": target, "features": features, "expect": expect or []}


A64 = "aarch64-unknown-linux-gnu"

# C03: the unsafe SIMD kernels under the UB interpreter. x86 engines need
# their target feature switched on at compile time, otherwise Miri (rightly)
# reports the call itself as UB - which is exactly what the C14 stage uses.
MIRI_C03 = {
    "name": "miri", "kind": "miri-diff", "timeout": 2700,
    "procs": [
        mp("x86-avx2-prims", "avx2", ["prims", "avx2", "{seed}", "45"], ["prims", "naive", "{seed}", "45"], "-Ctarget-feature=+avx2"),
        mp("x86-ssse3-prims", "avx2", ["prims", "ssse3", "{seed}", "45"], ["prims", "naive", "{seed}", "45"], "-Ctarget-feature=+avx2"),
        mp("x86-avx2-codec", "avx2", ["codec", "avx2", "{seed}", "1"], ["codec", "naive", "{seed}", "1"], "-Ctarget-feature=+avx2"),
        mp("x86-nosimd-prims", "none", ["prims", "nosimd", "{seed}", "45"], ["prims", "naive", "{seed}", "45"]),
        mp("a64-neon-prims", "a64", ["prims", "neon", "{seed}", "45"], ["prims", "naive", "{seed}", "45"], target=A64),
        mp("a64-neon-codec", "a64", ["codec", "neon", "{seed}", "1"], ["codec", "naive", "{seed}", "1"], target=A64),
    ],
}

# C14: under Miri runtime detection reports exactly the compile-time features
# and calling a #[target_feature] function without the feature is reported as
# UB. With hooks on, the ISA trace shows which engine served the calls.
def c14_expect(avx2, ssse3, counters):
    return [
        {"id": "detected", "regex": r"detected avx2=%s ssse3=%s" % (avx2, ssse3),
         "what": "runtime detection under Miri did not report the compile-time feature set", "inconclusive": True},
        {"id": "isa-trace", "regex": counters, "what": "ISA trace shows that the calls were not served by the best reported engine"},
    ]


NZ = r"[1-9]\d*"
ROW_NZ = r"\[%s, %s, %s, %s\]" % (NZ, NZ, NZ, NZ)
ROW_Z = r"\[0, 0, 0, 0\]"
MIRI_C14 = {
    "name": "miri", "kind": "miri-diff", "timeout": 2700,
    "procs": [
        mp("x86-none-default", "none-h", ["default", "{seed}"], ["default", "{seed}"], None, None, "hooks",
           c14_expect("false", "false", r"isa-counters \[%s, %s, %s\]" % (ROW_Z, ROW_Z, ROW_Z))),
        mp("x86-ssse3-default", "ssse3-h", ["default", "{seed}"], ["default", "{seed}"], "-Ctarget-feature=+ssse3", None, "hooks",
           c14_expect("false", "true", r"isa-counters \[%s, %s, %s\]" % (ROW_Z, ROW_NZ, ROW_Z))),
        mp("x86-avx2-default", "avx2-h", ["default", "{seed}"], ["default", "{seed}"], "-Ctarget-feature=+avx2", None, "hooks",
           c14_expect("true", "true", r"isa-counters \[%s, %s, %s\]" % (ROW_NZ, ROW_Z, ROW_Z))),
        mp("a64-default", "a64-h", ["default", "{seed}"], ["default", "{seed}"], None, A64, "hooks",
           [{"id": "detected", "regex": r"detected neon=true", "what": "neon not detected on aarch64", "inconclusive": True},
            {"id": "isa-trace", "regex": r"isa-counters \[%s, %s, %s\]" % (ROW_Z, ROW_Z, ROW_NZ),
             "what": "ISA trace shows that the calls were not served by the Neon engine"}]),
    ],
}

PROPERTIES = {
    "C01": {
        "quick": [rs("checked", "checked", 5.0)],
        "thorough": [rs("checked", "checked"), rs("release", "release"), asan(0.05)],
    },
    "C02": {
        "quick": [rs("checked", "checked", 8.0)],
        "thorough": [rs("checked", "checked", 5.0), rs("release", "release", 2.0)],
    },
    "C03": {
        "quick": [rs("checked", "checked", 4.0)],
        "thorough": [rs("checked", "checked"), rs("release", "release", 0.5), asan(0.1), valgrind(0.002), MIRI_C03],
    },
    "C04": {
        "quick": [rs("checked", "checked", 5.0)],
        "thorough": [rs("checked", "checked"), rs("release", "release", 0.3), asan(0.1)],
    },
    "C05": {
        "quick": [rs("checked", "checked", 3.0)],
        "thorough": [rs("checked", "checked"), rs("release", "release", 0.5), asan(0.1)],
    },
    "C06": {
        "quick": both(8.0),
        "thorough": both(10.0),
    },
    "C07": {
        "quick": both(6.0),
        "thorough": both(4.0),
    },
    "C08": {
        "quick": [rs("checked", "checked")],
        "thorough": [rs("checked", "checked"), rs("release", "release", 0.5), asan(0.05, ["--stage", "really-works"])],
    },
    "C09": {
        "quick": [rs("checked", "checked", 2.0)],
        "thorough": [rs("checked", "checked"), rs("release", "release", 0.3)],
    },
    "C10": {
        "quick": both(8.0),
        "thorough": both(20.0),
    },
    "C11": {
        "quick": [rs("checked", "checked", 3.0)],
        "thorough": [rs("checked", "checked", 2.0), rs("release", "release", 0.5)],
    },
    "C12": {
        "quick": both(1.5),
        "thorough": both(2.0),
    },
    "C13": {
        "quick": [rs("checked", "checked", 4.0)],
        "thorough": [rs("checked", "checked", 4.0), rs("release", "release", 1.0)],
    },
    "C14": {
        "quick": [rs("checked", "checked", 10.0)],
        "thorough": [rs("checked", "checked", 8.0), rs("release", "release", 8.0), MIRI_C14],
    },
    "C15": {
        "quick": [rs("release", "release", 4.0)],
        "thorough": [rs("release", "release", 8.0), rs("checked", "checked", 0.5)],
    },
    "C16": {
        "quick": [rs("release", "release", 6.0)],
        "thorough": [rs("release", "release", 3.0), rs("checked", "checked", 1.0),
                     {"name": "tsan", "kind": "tsan", "schedules": 100},
                     {"name": "miri-race", "kind": "miri-race", "seeds": 16, "timeout": 2700}],
    },
    "C17": {
        "quick": [rs("release", "release", 8.0)],
        "thorough": [rs("release", "release", 10.0), rs("checked", "checked", 2.0)],
    },
}

RULES = {
    "C01": "case = (k, r, rate, API layer, engines, shard size, data, received set, add order) drawn from classes "
           "tiny/small/edge/medium/large/corner; oracle = the originals; non-trivial = at least one original missing "
           "(so at least one recovery shard is used); distinct = hash of (k, r, rate, decoder, size, received set)",
    "C02": "case = (k, r, rate, API/engine, shard size, data); every recovery symbol (all rows x all slots when "
           "k*r*slots <= 3e6, otherwise first/last/chunk-boundary/random rows x first/last/random slots) is compared "
           "with the closed-form scaled-Cauchy matrix over the harness's own GF(2^16); stage rs16 compares bytes with "
           "reed-solomon-16 0.1.0 at 64-multiples; evaluations = symbols compared; distinct = (k, r, rate, size, api)",
    "C03": "primitive cases = (fft|ifft, pos, size=2^n, truncated_size, skew_delta, blocks per shard, random or structured "
           "input, a quarter at unaligned addresses; stages for 64-160 MiB working sets and for shards of 65535-131072 blocks) "
           "compared on the contract-defined outputs with Naive, plus byte-exact confinement to [pos, pos+size); "
           "mul and eval_poly cases; end-to-end = encode+decode per engine; evaluations = engine executions compared; "
           "non-trivial = size >= 2 with a non-empty defined range / at least one block / any end-to-end case",
    "C04": "case = (k, r, rate, api, size in 2..=130 step 2 or larger, data) with poison armed; slot decomposition of "
           "encode and decode at first/last/block-boundary/random slots; evaluations = slots re-coded alone; "
           "distinct = (k, r, rate, size, api)",
    "C05": "case = history of 2-8 (thorough: up to 20) rounds on one encoder or decoder (explicit reset / implicit reset / abandoned round / "
           "failed calls / working space recycled through into_parts into another rate and engine), each round compared "
           "with a fresh object (and the ground truth); hand-overs sometimes keep the very configuration the working space is set up for; non-trivial = round preceded by a completed round of another "
           "shape; distinct = hash of the whole history; natural and poisoned staleness counted separately; decoder "
           "histories contain correlated rounds (neighbour configurations, the previous round's loss pattern, all recovery "
           "shards and no original); one round in eight passes shards as values whose as_ref() changes between calls",
    "C06": "case = random walk of 10-40 (thorough: up to 200) public calls on one object (or one static call) with hostile scalars; every "
           "call is judged against the set of literally true errors computed by a shadow model; evaluations = calls "
           "judged; the walks also hand the working space to a new codec of any rate; the Display text of a returned error must "
           "mention every value the error carries; distinct = hash of the call sequence",
    "C07": "case = operation stream with injected failing calls applied to a primary and (successful operations only) "
           "to a twin; non-trivial = at least one failed call followed by a completed round; distinct = hash of the stream",
    "C10": "case = argument tuple for encode()/decode() (counts, shard lists with duplicates, out-of-range indexes, "
           "mixed/invalid sizes, with and without recovery shards, half of them through filtering iterators with inexact size_hint, a third preceded by a failing call of the same shape, a quarter through iterators that state their own size_hint, a fifth as sub-slices of one flat buffer at odd addresses, one in fifty with shards of 64 KiB - 3 MiB, a sixth through non-fused iterators) compared with the streaming API and the truth model; "
           "distinct = hash of the arguments",
    "C11": "case = minimal received set decoded in ascending order (reference), 4 permutations/interleavings and 3 "
           "supersets incl. all shards; non-trivial = at least one original missing in the minimal set",
    "C12": "case = 1-50 consecutive rounds on one object; after each encode/decode every accessor is probed with "
           "in-range, boundary, 2^32, 2^63, usize::MAX and wrap-around indexes and compared with the accessor model; "
           "a third of the objects have a past; one round in six ends with the result dropped by unwinding; the Iterator "
           "contract (count, size_hint, nth, last, skip, step_by) of both result iterators is checked against next(); "
           "evaluations = rounds observed",
    "C08": "stage grid enumerates ALL (k, r) in 0..=65537 squared against five supports() predicates (exhaustive); "
           "hostile-scalars adds values up to usize::MAX; constructors compares new/reset/validate with "
           "supports && size even && != 0 on the boundary band; really-works round-trips every staircase corner and its "
           "inside neighbours (maximum loss + a random sufficient set). distinct_nontrivial counts boundary points of "
           "the grid (last supported / first unsupported per row and predicate) plus distinct constructor and corner cases",
    "C09": "rule-grid = every (k, r) of a square (96x96 quick, 320x320 thorough) at 2-byte shards: default-rate encoder "
           "vs the dedicated encoder named by the independently written rule, and cross decoding; rule-sampled = larger "
           "configurations; reset-across-rule = one default codec reset back and forth across the rule; api-layers = "
           "wrapper / one-shot / every engine. non-trivial = discriminating configuration (both rates supported and "
           "they produce different bytes) or a history with at least one rate switch",
    "C14": "case = one primitive call (or one ReedSolomonEncoder/Decoder round trip) repeated under all four reported "
           "subsets of {avx2, ssse3}; the (ISA, primitive) counter delta of hook H2 is compared with the specification "
           "(nothing outside the best reported ISA; every entry point the explicitly chosen best engine goes through "
           "is gone through); results must agree across subsets; stage huge-working-set-trace does the same for "
           "transforms and codec rounds over 64-160 MiB",
    "C15": "tables: every entry of exp, log, skew, log_walsh, mul16, mul128 against its definition; mul: all 65536 "
           "symbols for a set of multipliers (quick 1024 incl. 0, 1, 65534, 65535; thorough all 65536) per engine; "
           "fft/ifft against direct polynomial evaluation in the LCH basis at chunk-aligned offsets (all points for "
           "size <= 512, sampled above) plus fft(ifft(v)) = v; eval_poly against the locator sum (all x for <= 64 "
           "marks, sampled otherwise) and across truncated sizes. evaluations = entries / symbols / points compared",
    "C16": "case = one schedule in a fresh process: 2-16 threads released by a barrier with 0-2 ms stagger, each running "
           "a role that first-touches a different subset of the lazy tables (incl. objects handed to another thread "
           "mid-round); digests compared with a sequential reference; H3 event log checked for exactly-once, "
           "and end-before-use; evaluations = role executions compared; the evidence lists the "
           "distinct initialisation interleavings observed; in-process stages: migration (decoders / encoders "
           "hopping between 6 threads mid-round, every result checked) and churn (12 threads construct / reset / "
           "hand over / drop codecs with working spaces of 4 KiB - 8 MiB as fast as they can, checked round trips; "
           "any panic, error or wrong result is a violation); children are released staggered, as a burst, or as a "
           "burst aimed at the end of a table initialisation; roles include one-shot calls nested in the iterators of "
           "one-shot calls",
    "C17": "case = history (new, rounds, resets, hand-over of the working space to another rate/engine) executed at "
           "shard sizes S and 8S under a counting allocator; rounds and steps that need no more working space than is "
           "held (positions calibrated from the crate's own fresh constructions, blocks per shard = ceil(S/64)) must "
           "not allocate shard-proportional "
           "memory; results of consecutive rounds of one configuration must live at the same address; evaluations = "
           "steps measured; half of the resets and hand-overs find an unfinished round; stage huge-alloc uses objects that "
           "hold 128-256 MiB; non-trivial = history with a non-growing step and more than one round",
    "C13": "case = (config, rate, api, size, two data sets, scalar), all encodes of a case on fresh encoders or (half) as consecutive rounds of one encoder object; b is a small delta in a quarter of the cases; stage linearity-long-shards uses 4 and 8 MiB shards on every fast engine: additivity, zero and homogeneity are checked; "
           "evaluations = relations checked",
}

COMMON_ASSUMPTIONS = [
    "verdict covers only the executions produced by this run (sampled inputs; see coverage)",
    "the harness's own GF(2^16) arithmetic (self-checked against carry-less multiplication) is right",
    "x86-64 host with SSSE3 and AVX2; the Neon engine is the repository's source executed on emulated intrinsics",
]

ASSUMPTIONS = {p: list(COMMON_ASSUMPTIONS) for p in
               ["C%02d" % i for i in range(1, 18)]}
