//! Shared plumbing: PRNG, JSON emission, case runner, result aggregation.

use std::collections::{BTreeMap, HashSet};
use std::panic::{self, AssertUnwindSafe};
use std::sync::atomic::{AtomicU64, Ordering};
use std::sync::Mutex;
use std::time::{Duration, Instant};

// ======================================================================
// PRNG (splitmix64)

#[derive(Clone)]
pub struct Rng(pub u64);

pub fn mix(a: u64, b: u64) -> u64 {
    let mut r = Rng(a ^ b.wrapping_mul(0x9E37_79B9_7F4A_7C15));
    r.next_u64();
    r.next_u64()
}

pub fn hash_str(s: &str) -> u64 {
    let mut h = 0xcbf2_9ce4_8422_2325u64;
    for b in s.bytes() {
        h ^= u64::from(b);
        h = h.wrapping_mul(0x0100_0000_01b3);
    }
    h
}

pub fn hash_bytes(h0: u64, s: &[u8]) -> u64 {
    let mut h = h0 ^ 0xcbf2_9ce4_8422_2325u64;
    for b in s {
        h ^= u64::from(*b);
        h = h.wrapping_mul(0x0100_0000_01b3);
    }
    mix(h, s.len() as u64)
}

impl Rng {
    pub fn new(seed: u64) -> Self {
        Rng(seed ^ 0x5851_F42D_4C95_7F2D)
    }
    pub fn next_u64(&mut self) -> u64 {
        self.0 = self.0.wrapping_add(0x9E37_79B9_7F4A_7C15);
        let mut z = self.0;
        z = (z ^ (z >> 30)).wrapping_mul(0xBF58_476D_1CE4_E5B9);
        z = (z ^ (z >> 27)).wrapping_mul(0x94D0_49BB_1331_11EB);
        z ^ (z >> 31)
    }
    /// uniform in 0..n (n > 0)
    pub fn below(&mut self, n: usize) -> usize {
        (self.next_u64() % (n as u64)) as usize
    }
    /// uniform in lo..=hi
    pub fn range(&mut self, lo: usize, hi: usize) -> usize {
        lo + self.below(hi - lo + 1)
    }
    pub fn chance(&mut self, num: u64, den: u64) -> bool {
        self.next_u64() % den < num
    }
    pub fn pick<'a, T>(&mut self, xs: &'a [T]) -> &'a T {
        &xs[self.below(xs.len())]
    }
    pub fn fill(&mut self, buf: &mut [u8]) {
        for c in buf.chunks_mut(8) {
            let v = self.next_u64().to_le_bytes();
            c.copy_from_slice(&v[..c.len()]);
        }
    }
    pub fn bytes(&mut self, n: usize) -> Vec<u8> {
        let mut v = vec![0u8; n];
        self.fill(&mut v);
        v
    }
    pub fn shuffle<T>(&mut self, xs: &mut [T]) {
        for i in (1..xs.len()).rev() {
            let j = self.below(i + 1);
            xs.swap(i, j);
        }
    }
}

// ======================================================================
// JSON (emission only)

pub fn jstr(s: &str) -> String {
    let mut o = String::with_capacity(s.len() + 2);
    o.push('"');
    for c in s.chars() {
        match c {
            '"' => o.push_str("\\\""),
            '\\' => o.push_str("\\\\"),
            '\n' => o.push_str("\\n"),
            '\r' => o.push_str("\\r"),
            '\t' => o.push_str("\\t"),
            c if (c as u32) < 0x20 => o.push_str(&format!("\\u{:04x}", c as u32)),
            c => o.push(c),
        }
    }
    o.push('"');
    o
}

pub fn jlist(items: &[String]) -> String {
    format!("[{}]", items.join(","))
}

pub fn jobj(fields: &[(&str, String)]) -> String {
    let v: Vec<String> = fields
        .iter()
        .map(|(k, v)| format!("{}:{}", jstr(k), v))
        .collect();
    format!("{{{}}}", v.join(","))
}

pub fn hex(b: &[u8]) -> String {
    let n = b.len().min(24);
    let mut s: String = b[..n].iter().map(|x| format!("{x:02x}")).collect();
    if b.len() > n {
        s.push_str(&format!("..({}B)", b.len()));
    }
    s
}

// ======================================================================
// Panic capture

thread_local! {
    static LAST_PANIC: std::cell::RefCell<String> = const { std::cell::RefCell::new(String::new()) };
}

pub fn install_panic_hook() {
    panic::set_hook(Box::new(|info| {
        let msg = if let Some(s) = info.payload().downcast_ref::<&str>() {
            (*s).to_string()
        } else if let Some(s) = info.payload().downcast_ref::<String>() {
            s.clone()
        } else {
            "<non-string panic>".to_string()
        };
        let loc = info
            .location()
            .map(|l| format!("{}:{}", l.file(), l.line()))
            .unwrap_or_default();
        LAST_PANIC.with(|p| *p.borrow_mut() = format!("{msg} @ {loc}"));
    }));
}

/// Runs `f`, returning Err(panic message with location) if it panicked.
pub fn guarded<T>(f: impl FnOnce() -> T) -> Result<T, String> {
    match panic::catch_unwind(AssertUnwindSafe(f)) {
        Ok(v) => Ok(v),
        Err(_) => Err(LAST_PANIC.with(|p| p.borrow().clone())),
    }
}

/// Panic message reduced to a stable signature (file:line + head of message,
/// digits removed from the message so that argument values do not matter).
pub fn panic_sig(msg: &str) -> String {
    let (m, loc) = msg.rsplit_once(" @ ").unwrap_or((msg, ""));
    let head: String = m
        .chars()
        .filter(|c| !c.is_ascii_digit())
        .take(48)
        .collect();
    let loc = loc.rsplit('/').next().unwrap_or(loc);
    format!("panic[{}|{}]", head.trim(), loc)
}

// ======================================================================
// Case output / aggregation

#[derive(Default)]
pub struct CaseOut {
    /// number of oracle evaluations done by this case
    pub evals: u64,
    /// hashes of distinct non-trivial sub-cases
    pub nontrivial: Vec<u64>,
    /// coverage tags, counted
    pub tags: Vec<String>,
    /// one JSON value describing the case
    pub sample: Option<String>,
    /// (signature, detail)
    pub violations: Vec<(String, String)>,
    /// inconclusive reasons
    pub inconclusive: Vec<String>,
    /// measured quantities, summed over cases
    pub sums: Vec<(String, u64)>,
}

impl CaseOut {
    pub fn add(&mut self, key: impl Into<String>, n: u64) {
        self.sums.push((key.into(), n));
    }
    pub fn tag(&mut self, t: impl Into<String>) {
        self.tags.push(t.into());
    }
    pub fn violate(&mut self, sig: impl Into<String>, detail: impl Into<String>) {
        self.violations.push((sig.into(), detail.into()));
    }
    pub fn nontrivial_key(&mut self, key: &str) {
        self.nontrivial.push(hash_str(key));
    }
}

#[derive(Clone)]
pub struct Violation {
    pub sig: String,
    pub detail: String,
    pub stage: String,
    pub case_seed: u64,
}

#[derive(Default)]
pub struct Agg {
    pub evaluations: u64,
    pub cases: u64,
    pub distinct: HashSet<u64>,
    pub tags: BTreeMap<String, u64>,
    pub sums: BTreeMap<String, u64>,
    pub samples: Vec<String>,
    pub violations: Vec<Violation>,
    pub violation_count: u64,
    pub inconclusive: Vec<String>,
    pub extra: Vec<(String, String)>,
}

impl Agg {
    pub fn absorb(&mut self, stage: &str, case_seed: u64, out: CaseOut) {
        self.cases += 1;
        self.evaluations += out.evals;
        for h in out.nontrivial {
            self.distinct.insert(h);
        }
        for t in out.tags {
            *self.tags.entry(t).or_insert(0) += 1;
        }
        for (k, n) in out.sums {
            *self.sums.entry(k).or_insert(0) += n;
        }
        if let Some(s) = out.sample {
            // keep first 3 samples per stage
            let key = format!("{{\"stage\":{}", jstr(stage));
            if self.samples.iter().filter(|x| x.starts_with(&key)).count() < 3 {
                self.samples.push(format!(
                    "{{\"stage\":{},\"case_seed\":{},\"case\":{}}}",
                    jstr(stage),
                    case_seed,
                    s
                ));
            }
        }
        for (sig, detail) in out.violations {
            self.violation_count += 1;
            // keep at most 4 witnesses per signature, 200 overall
            let same = self.violations.iter().filter(|v| v.sig == sig).count();
            if same < 4 && self.violations.len() < 200 {
                self.violations.push(Violation {
                    sig,
                    detail,
                    stage: stage.to_string(),
                    case_seed,
                });
            }
        }
        for i in out.inconclusive {
            if self.inconclusive.len() < 50 && !self.inconclusive.contains(&i) {
                self.inconclusive.push(i);
            }
        }
    }

    pub fn to_json(&self, prop: &str, wall_s: f64) -> String {
        let tags: Vec<String> = self
            .tags
            .iter()
            .map(|(k, v)| format!("{}:{}", jstr(k), v))
            .collect();
        let sums: Vec<String> = self
            .sums
            .iter()
            .map(|(k, v)| format!("{}:{}", jstr(k), v))
            .collect();
        let viol: Vec<String> = self
            .violations
            .iter()
            .map(|v| {
                jobj(&[
                    ("sig", jstr(&v.sig)),
                    ("detail", jstr(&v.detail)),
                    ("stage", jstr(&v.stage)),
                    ("case_seed", v.case_seed.to_string()),
                ])
            })
            .collect();
        let inc: Vec<String> = self.inconclusive.iter().map(|s| jstr(s)).collect();
        let mut fields = vec![
            ("property", jstr(prop)),
            ("cases", self.cases.to_string()),
            ("evaluations", self.evaluations.to_string()),
            ("distinct_nontrivial", self.distinct.len().to_string()),
            ("tags", format!("{{{}}}", tags.join(","))),
            ("obs_measured_sums", format!("{{{}}}", sums.join(","))),
            ("samples", jlist(&self.samples)),
            ("violation_count", self.violation_count.to_string()),
            ("violations", jlist(&viol)),
            ("inconclusive", jlist(&inc)),
            ("wall_s", format!("{wall_s:.3}")),
        ];
        let extra: Vec<(String, String)> = self.extra.clone();
        for (k, v) in &extra {
            fields.push((k.as_str(), v.clone()));
        }
        jobj(&fields)
    }
}

// ======================================================================
// Case runner

pub struct RunCfg {
    pub threads: usize,
    pub seed: u64,
    pub deadline: Instant,
    /// if set, run only this case seed (replay)
    pub only_case: Option<u64>,
    /// if set, run only this stage
    pub only_stage: Option<String>,
    pub thorough: bool,
}

impl RunCfg {
    pub fn stage_enabled(&self, stage: &str) -> bool {
        self.only_stage.as_deref().map_or(true, |s| s == stage)
    }
}

/// Runs `n` independent cases of `stage` on `cfg.threads` threads. Case `i`
/// gets the seed `mix(mix(cfg.seed, hash(stage)), i)`; a replay runs exactly
/// one such seed. A panic that escapes the case body is a violation.
pub fn run_cases<F>(agg: &Mutex<Agg>, cfg: &RunCfg, stage: &str, n: u64, f: F)
where
    F: Fn(u64, &mut CaseOut) + Sync,
{
    run_cases_ex(agg, cfg, stage, n, false, f);
}

/// Like `run_cases`, but the case body receives the plain index `0..n`
/// (enumerations); a replay's `--case` is that index.
pub fn run_indexed<F>(agg: &Mutex<Agg>, cfg: &RunCfg, stage: &str, n: u64, f: F)
where
    F: Fn(u64, &mut CaseOut) + Sync,
{
    run_cases_ex(agg, cfg, stage, n, true, f);
}

fn run_cases_ex<F>(agg: &Mutex<Agg>, cfg: &RunCfg, stage: &str, n: u64, indexed: bool, f: F)
where
    F: Fn(u64, &mut CaseOut) + Sync,
{
    if !cfg.stage_enabled(stage) {
        return;
    }
    let run_one = |case_seed: u64| {
        let mut out = CaseOut::default();
        let r = guarded(|| f(case_seed, &mut out));
        if let Err(msg) = r {
            out.violate(
                panic_sig(&msg),
                format!("panic escaped from case body: {msg}"),
            );
        }
        agg.lock().unwrap().absorb(stage, case_seed, out);
    };
    if let Some(cs) = cfg.only_case {
        run_one(cs);
        return;
    }
    let base = mix(cfg.seed, hash_str(stage));
    let next = AtomicU64::new(0);
    let skipped = AtomicU64::new(0);
    std::thread::scope(|s| {
        for _ in 0..cfg.threads.max(1) {
            s.spawn(|| loop {
                let i = next.fetch_add(1, Ordering::Relaxed);
                if i >= n {
                    break;
                }
                if Instant::now() > cfg.deadline {
                    skipped.fetch_add(1, Ordering::Relaxed);
                    continue;
                }
                run_one(if indexed { i } else { mix(base, i) });
            });
        }
    });
    let sk = skipped.load(Ordering::Relaxed);
    if sk > 0 {
        agg.lock().unwrap().inconclusive.push(format!(
            "stage {stage}: wall-clock budget reached, {sk} of {n} cases not run"
        ));
    }
}

pub fn deadline_after(secs: u64) -> Instant {
    Instant::now() + Duration::from_secs(secs)
}
